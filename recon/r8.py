from h import *
import sys, os, pickle
class Intr(Exception): pass
def compile_obs(tag, vec):
    op = OperatorTemplate(name=f'lin{tag}', equations=["x' = -a*x + u"], variables={'x': 'output(0.5)', 'a': 2.0, 'u': 'input(0.0)'})
    n = NodeTemplate(name='n', operators=[op])
    c = CircuitTemplate(name='c', nodes={'p1': n, 'p2': n}, edges=[('p1/lin%s/x'%tag,'p2/lin%s/u'%tag,None,{'weight':2.0})])
    f,args,names,smap = vf(c, vectorize=vec)
    out = (names, smap, [np.array(a).tolist() for a in args[1:]])
    clear(c)
    return out
ref = None
def run_with_intr(n_stop):
    cnt=[0]
    def tr(frame, event, arg):
        if event=='call' and '/pyrates/' in frame.f_code.co_filename:
            cnt[0]+=1
            if cnt[0]==n_stop: raise Intr(f'at {frame.f_code.co_name}')
        return None
    sys.settrace(tr)
    try:
        compile_obs('A', True); r='completed'
    except Intr as e: r=str(e)
    finally: sys.settrace(None)
    return r
import random
rng=random.Random(1)
results={}
for trial in range(40):
    n_stop = rng.randint(1, 1100)
    pid=os.fork()
    if pid==0:
        import tempfile; os.chdir(tempfile.mkdtemp())
        ref = compile_obs('B', True)  # pristine reference first? no: do in separate fork
        os._exit(0)
    os.waitpid(pid,0)
    r,w=os.pipe(); pid=os.fork()
    if pid==0:
        import tempfile; os.chdir(tempfile.mkdtemp())
        where = run_with_intr(n_stop)
        try: got=('ok', compile_obs('B', True))
        except Exception as e: got=('exc', type(e).__name__+': '+str(e)[:80])
        os.write(w, pickle.dumps((where, got))); os._exit(0)
    os.close(w); data=b''
    while True:
        b=os.read(r,65536)
        if not b: break
        data+=b
    os.waitpid(pid,0); where,got=pickle.loads(data)
    results[n_stop]=(where, got[0], got[1] if got[0]=='exc' else got[1][0])
r0 = compile_obs('B', True)
for k,v in sorted(results.items()):
    flag = 'SAME' if (v[1]=='ok' and tuple(v[2])==tuple(r0[0])) else 'DIFF'
    print(k, v[0], flag, '' if flag=='SAME' else v[2])
