from h import *
from pyrates.frontend.template.population import PopulationTemplate, Connectivity
import random, sys
def rec_factory(log):
    def rec(f):
        def g(t, y, *a):
            yc = np.array(y).copy(); r = f(t, y, *a); log.append((int(t), yc, np.array(r).copy())); return r
        return g
    return rec
dt=1e-3
def trial(seed):
    rng=random.Random(seed); n=rng.randint(1,4); m=rng.randint(1,3)
    A=[round(rng.uniform(0.5,3),2) for _ in range(n)]; X0=[round(rng.uniform(0.1,1),3) for _ in range(n)]
    B=[round(rng.uniform(0.5,3),2) for _ in range(m)]; Y0=[round(rng.uniform(0.1,1),3) for _ in range(m)]
    op = OperatorTemplate(name='lin', equations=["x' = -a*x + u"], variables={'x': 'output(0.0)', 'a': 1.0, 'u': 'input(0.0)'})
    nd = NodeTemplate(name='n', operators=[op])
    pa = PopulationTemplate(name='pa', node=nd, n=n, params={'lin/a': A, 'lin/x': X0})
    pb = PopulationTemplate(name='pb', node=nd, n=m, params={'lin/a': B, 'lin/x': Y0})
    conns=[]; spec=[]
    for (s,t,ns,nt) in [('pa','pb',n,m),('pb','pa',m,n),('pa','pa',n,n)]:
        if rng.random()<0.7:
            if rng.random()<0.3: W=round(rng.uniform(-1,1),2)
            else: W=np.round(np.random.default_rng(seed).uniform(-1,1,size=(nt,ns))*(np.random.default_rng(seed+1).random((nt,ns))<0.7),2)
            d = rng.choice([None, rng.randint(2,6)])
            conns.append(Connectivity(f'{s}/lin/x', f'{t}/lin/u', W, delays=(d*dt+0.1*dt) if d else None)); spec.append((s,t,W,d or 0))
    if not conns: return None
    c = CircuitTemplate(name='c', populations={'pa':pa,'pb':pb}, connections=conns)
    log=[]
    try:
        f,args,names,smap = vf(c, vectorize=True)
        R = run(c, {'a':'pa/lin/x','b':'pb/lin/x'}, T=0.02, dt=dt, solver='euler', decorator=rec_factory(log), vectorize=True)
    except Exception as e:
        clear_frontend_caches(); return ('exc', type(e).__name__, str(e)[:100], [(s,t,np.shape(W),d) for s,t,W,d in spec])
    ia = smap['pa/lin/x']; ib = smap['pb/lin/x']
    def sl(idx): return slice(idx[0],idx[1]) if isinstance(idx,tuple) else slice(idx,idx+1)
    pos={'pa':sl(ia),'pb':sl(ib)}; par={'pa':np.array(A),'pb':np.array(B)}
    traj=[e[1] for e in log]; bad=[]
    for k,(t,y,r) in enumerate(log):
        for tgt in ['pa','pb']:
            u = r[pos[tgt]] + par[tgt]*y[pos[tgt]]
            exp=np.zeros_like(u)
            for (s,tt,W,d) in spec:
                if tt!=tgt: continue
                src = traj[k-d][pos[s]] if k-d>=0 else np.zeros(len(par[s]))
                exp += (W*src.sum()) if np.ndim(W)==0 else np.asarray(W)@src
            if not np.allclose(u,exp,atol=1e-9): bad.append((k,tgt,u.tolist(),exp.tolist()))
    if bad: return ('bad', bad[:2], [(s,t,np.shape(W),d) for s,t,W,d in spec])
    return None
bad=0; excs={}
for s in range(int(sys.argv[1])):
    r=trial(s)
    if r and r[0]=='bad': bad+=1; print(s, r) if bad<6 else None
    elif r: excs[(r[1],r[2][:60])]=excs.get((r[1],r[2][:60]),0)+1
print('bad',bad)
for k,v in excs.items(): print(v,k)
