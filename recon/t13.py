from h import *
from p1 import in_fork
import random, sys, json
class Boom(Exception): pass
def obs_model(tag, shared=None, vec=True, clear_after=True, fault=None, fname=None):
    # model: 2-3 nodes from a (possibly shared) NodeTemplate
    if shared is None:
        op = OperatorTemplate(name=f'lin{tag}', equations=["x' = -a*x + u"], variables={'x': 'output(0.5)', 'a': 2.0, 'u': 'input(0.0)'})
        nt = NodeTemplate(name='n', operators=[op]); opn=f'lin{tag}'
    else:
        nt, opn = shared
    n = 2 if tag in 'AC' else 3
    keys=[f'p{i}' for i in range(n)]
    c = CircuitTemplate(name='c'+tag, nodes={k: nt for k in keys}, edges=[(f'p0/{opn}/x', f'p{n-1}/{opn}/u', None, {'weight': 2.0+ord(tag[0])%3})])
    kw={}
    if fname: kw['file_name']=fname
    if fault=='rhs':
        cnt=[0]
        def deco(f):
            def g(*a):
                cnt[0]+=1
                if cnt[0]==3: raise Boom('rhs')
                return f(*a)
            return g
        try:
            run(c, {'o': f'all/{opn}/x'}, T=0.01, dt=1e-3, decorator=deco, vectorize=vec, clear=clear_after, **kw); return 'no-raise'
        except Boom: return 'raised'
    R = run(c, {'o': f'all/{opn}/x'}, T=0.01, dt=1e-3, vectorize=vec, clear=clear_after, in_place=False, **kw)
    return [list(map(str,R.columns)), np.round(R.values[-1],12).tolist()]
def scenario(name):
    if name=='shared-clear':
        op = OperatorTemplate(name='lin', equations=["x' = -a*x + u"], variables={'x': 'output(0.5)', 'a': 2.0, 'u': 'input(0.0)'}); sh=(NodeTemplate(name='n', operators=[op]),'lin')
        return [lambda: obs_model('A', sh), lambda: obs_model('B', sh)], [lambda: obs_model('B', sh)]
    if name=='shared-noclear':
        op = OperatorTemplate(name='lin', equations=["x' = -a*x + u"], variables={'x': 'output(0.5)', 'a': 2.0, 'u': 'input(0.0)'}); sh=(NodeTemplate(name='n', operators=[op]),'lin')
        return [lambda: obs_model('A', sh, clear_after=False), lambda: obs_model('B', sh, clear_after=False)], [lambda: obs_model('B', sh, clear_after=False)]
    if name=='rhsfault-then-model':
        return [lambda: obs_model('A', fault='rhs'), lambda: obs_model('B')], [lambda: obs_model('B')]
    if name=='rhsfault-noclear-then-model':
        return [lambda: obs_model('A', fault='rhs', clear_after=False), lambda: obs_model('B')], [lambda: obs_model('B')]
    if name=='samefile-noclear':
        return [lambda: obs_model('A', fname='ff', clear_after=False), lambda: obs_model('B', fname='ff', clear_after=False)], [lambda: obs_model('B', fname='ff', clear_after=False)]
for name in ['shared-clear','shared-noclear','rhsfault-then-model','rhsfault-noclear-then-model','samefile-noclear']:
    def hist():
        ops,_=scenario(name); out=[]
        for o in ops:
            try: out.append(o())
            except Exception as e: out.append('EXC '+type(e).__name__+': '+str(e)[:80])
        return out
    def ref():
        _,ops=scenario(name)
        try: return ops[-1]()
        except Exception as e: return 'EXC '+type(e).__name__+': '+str(e)[:80]
    h_=in_fork(hist)[1]; r_=in_fork(ref)[1]
    print(name, 'SAME' if h_[-1]==r_ else 'DIFF'); 
    if h_[-1]!=r_: print('   hist:', json.dumps(h_)[:400]); print('   ref :', json.dumps(r_)[:300])
