from h import *
import random, sys
def rec_factory(log):
    def rec(f):
        def g(t, y, *a):
            yc = np.array(y).copy(); r = f(t, y, *a); log.append((t, yc, np.array(r).copy())); return r
        return g
    return rec
def trial(seed):
    rng=random.Random(seed)
    dt = rng.choice([1e-4,1e-3,7e-3,0.01,0.05,0.1,0.3,1/3,0.25])
    m = rng.randint(1,7); K = rng.randint(1,40)
    dts = m*dt; T = K*dts
    mode = rng.choice(['mult','mult','nonmult'])
    if mode=='nonmult': T = T + rng.choice([0.5,0.3,1.2])*dt
    solver = rng.choice(['euler','heun'])
    cutoff = rng.choice([0.0, 0.0, rng.randint(0,K)*dts, rng.uniform(0,T)])
    sss = dts if rng.random()<0.8 or m>1 else None
    prec = rng.choice(['float64','float32'])
    log=[]; c = build2(d=rng.choice([None, 3*dt]))
    try:
        R = run(c, {'a':'p1/lin/x','b':'p2/lin/x'}, T=T, dt=dt, solver=solver, sampling_step_size=sss, cutoff=cutoff, decorator=rec_factory(log), vectorize=rng.random()<0.5, float_precision=prec)
    except Exception as e:
        clear_frontend_caches()
        return ('exc', mode, type(e).__name__, str(e)[:60])
    steps=int(round(T/dt)); per = 1 if solver=='euler' else 2
    msgs=[]
    if len(log)!=steps*per: msgs.append(f'count {len(log)} vs {steps*per}')
    rows_all = int(round(T/dts))
    # expected index
    idx = np.linspace(0.0, T, num=rows_all, endpoint=False)
    keep = idx >= cutoff
    if len(R) != keep.sum(): msgs.append(f'rows {len(R)} vs {keep.sum()} (all {rows_all}) cutoff={cutoff}')
    else:
        if not np.allclose(R.index.values, idx[keep], rtol=1e-9, atol=1e-12): msgs.append('index')
        ys = [log[k*per][1] for k in range(steps)]
        for j,row in zip(np.nonzero(keep)[0], R.values):
            if j*m < len(ys):
                y = ys[j*m]
                if not (np.allclose(sorted(row), sorted(y[:2]), rtol=0, atol=0)): msgs.append(f'store row {j}: {row} vs {y}'); break
    if msgs: return ('bad', mode, solver, dt, m, K, T, cutoff, msgs)
    return None
bad=0; excs={}
for s in range(int(sys.argv[1])):
    r=trial(s)
    if r and r[0]=='bad': bad+=1; print(s, r) if bad<8 else None
    elif r: excs[(r[1],r[2],r[3])]=excs.get((r[1],r[2],r[3]),0)+1
print('bad',bad); print(excs)
