from h import *
import bisect
dt=1e-3
def refdde(a,b,cc,t1,t2,x0,steps):
    ts=[0.0]; xs=[x0]
    def H(s):
        if s<=ts[0]: return xs[0]
        if s>=ts[-1]: return xs[-1]
        i=bisect.bisect_right(ts,s)-1
        al=(s-ts[i])/(ts[i+1]-ts[i]); return xs[i]+al*(xs[i+1]-xs[i])
    x=x0; out=[]
    for k in range(steps):
        out.append(x)
        r = -a*H(k*dt-t1) - b*H(k*dt-t2) + cc*x
        x = x + dt*r
        ts.append((k+1)*dt); xs.append(x)
    return np.array(out)
def trial(solver, t1, t2):
    op = OperatorTemplate(name='dd', equations=["x' = -a*past(x, tau1) - b*x(t-tau2) + c*x"], variables={'x':'output(1.0)','a':30.0,'b':12.0,'c':0.4,'tau1':t1,'tau2':t2})
    c = CircuitTemplate(name='c', nodes={'p': NodeTemplate(name='n', operators=[op])})
    R = run(c, {'o':'p/dd/x'}, T=0.06, dt=dt, solver=solver, vectorize=False)
    return np.abs(R.values.flatten()-refdde(30.0,12.0,0.4,t1,t2,1.0,60)).max()
if __name__=="__main__": attempt('euler', lambda: trial('euler', 0.0073, 0.0031))
if __name__=="__main__": attempt('euler2', lambda: trial('euler', 0.007, 0.003))
