from h import *
from p1 import in_fork
import json
def obs(c, vec=False):
    f,args,names,smap = vf(c, vectorize=vec, in_place=False)
    d={n: np.round(np.array(a),12).tolist() for n,a in zip(names[1:], args[1:])}
    return d, {k:(list(v) if isinstance(v,tuple) else v) for k,v in smap.items()}
def build(kind):
    op = linop(); op2 = OperatorTemplate(name='sat', equations=["x' = (-x + tanh(g*u))/tau"], variables={'x':'output(0.1)','g':1.5,'tau':0.05,'u':'input(0.0)'})
    eop = OperatorTemplate(name='eop', equations=["m = k*s"], variables={'m':'output(0.0)','k':0.5,'s':'input(0.0)'})
    et = EdgeTemplate(name='et', operators=[eop]); et2 = EdgeTemplate(name='et2', operators={eop: {'k': 0.9}})
    n1 = NodeTemplate(name='n1', operators=[op]); n2 = NodeTemplate(name='n2', operators={op2: {'g': 2.5}}); n3 = NodeTemplate(name='n3', operators={op: {'a': 4.0}})
    def flat(name, third):
        return CircuitTemplate(name=name, nodes={'p1': n1, 'p2': n2, 'p3': third}, edges=[('p1/lin/x','p2/sat/u',None,{'weight':2.0,'delay':0.004}),('p2/sat/x','p3/lin/u',et,{'weight':0.7}),('p3/lin/x','p1/lin/u',None,{'weight':-1.0})])
    if kind=='flat': return flat('c', n1)
    if kind=='override-shared-op': return flat('c', n3)
    if kind=='edge-override':
        return CircuitTemplate(name='c', nodes={'p1': n1, 'p2': n1}, edges=[('p1/lin/x','p2/lin/u',et,{'weight':0.7}),('p2/lin/x','p1/lin/u',et2,{'weight':0.3})])
    if kind=='edge-attr':
        return CircuitTemplate(name='c', nodes={'p1': n1, 'p2': n1}, edges=[('p1/lin/x','p2/lin/u',et,{'weight':0.7, 'eop/k': 0.25}),('p2/lin/x','p1/lin/u',et,{'weight':0.3})])
    if kind=='hier':
        return CircuitTemplate(name='c', circuits={'ca': flat('ca', n1), 'cb': flat('cb', n1)}, edges=[('ca/p1/lin/x','cb/p2/sat/u',None,{'weight':0.3})])
    if kind=='update_var':
        c=flat('c', n1); c.update_var(node_vars={'p3/lin/a': 7.0, 'p1/lin/x': 0.9}); return c
for kind in ['flat','override-shared-op','edge-override','edge-attr','hier','update_var']:
    def orig(): return obs(build(kind))
    def rt():
        c=build(kind); c.to_yaml(f'yd/{kind}.yaml'); clear_frontend_caches()
        c2=CircuitTemplate.from_yaml(f'yd/{kind}/c'); return obs(c2)
    a=in_fork(orig); b=in_fork(rt)
    print(kind, 'SAME' if a==b else 'DIFF')
    if a!=b:
        print('   orig', json.dumps(a)[:500]); print('   rt  ', json.dumps(b)[:500])
