from h import *
import random, copy, sys
def trial(seed):
    rng=random.Random(seed)
    op = OperatorTemplate(name='lin', equations=["x' = -a*x + b*u"], variables={'x': 'output(0.5)', 'a': 2.0, 'b': 1.0, 'u': 'input(0.0)'})
    shared_node = NodeTemplate(name='n', operators=[op])
    var_node = NodeTemplate(name='nv', operators={op: {'a': 4.0}})
    depth = rng.choice([0,0,1])
    def mk_flat(prefix):
        keys=[f'p{i}' for i in range(rng.randint(2,4))]
        nodes={k: rng.choice([shared_node, var_node]) for k in keys}
        edges=[]
        for _ in range(rng.randint(0,3)):
            s,t=rng.choice(keys),rng.choice(keys)
            if (s,t) in [(e[0].split('/')[0],e[1].split('/')[0]) for e in edges]: continue
            edges.append((f'{s}/lin/x', f'{t}/lin/u', None, {'weight': round(rng.uniform(-2,2),2)}))
        return CircuitTemplate(name='c'+prefix, nodes=nodes, edges=edges), keys, nodes, edges
    ref={}
    if depth==0:
        c,keys,nodes,edges = mk_flat('')
        paths=keys
        for k in keys: ref[k]={'a': 4.0 if nodes[k] is var_node else 2.0, 'b':1.0, 'x':0.5}
    else:
        subs={}; paths=[]
        for cn in ['ca','cb']:
            sc,keys,nodes,edges = mk_flat(cn); subs[cn]=sc
            for k in keys:
                paths.append(f'{cn}/{k}'); ref[f'{cn}/{k}']={'a': 4.0 if nodes[k] is var_node else 2.0, 'b':1.0, 'x':0.5}
        c=CircuitTemplate(name='top', circuits=subs)
    hist=[]
    for _ in range(rng.randint(1,5)):
        kind=rng.choice(['one','all','sub'])
        var=rng.choice(['a','b','x'])
        if kind=='one':
            p=rng.choice(paths); v=round(rng.uniform(0.1,3),3); c.update_var(node_vars={f'{p}/lin/{var}': v}); ref[p][var]=v; hist.append((p,var,v))
        elif kind=='all':
            tgt = 'all' if depth==0 else 'all/all'
            if rng.random()<0.5:
                v=round(rng.uniform(0.1,3),3); c.update_var(node_vars={f'{tgt}/lin/{var}': v}); hist.append((tgt,var,v))
                for p in paths: ref[p][var]=v
            else:
                arr=np.array([round(rng.uniform(0.1,3),3) for _ in paths]); c.update_var(node_vars={f'{tgt}/lin/{var}': arr}); hist.append((tgt,var,arr.tolist()))
                order = c.get_nodes(tgt.split('/'))
                for p,v in zip(order, arr): ref[p][var]=float(v)
        elif depth==1:
            cn=rng.choice(['ca','cb']); v=round(rng.uniform(0.1,3),3); c.update_var(node_vars={f'{cn}/all/lin/{var}': v}); hist.append((cn,var,v))
            for p in paths:
                if p.startswith(cn+'/'): ref[p][var]=v
    vec = rng.random()<0.5
    f,args,names,smap = vf(c, vectorize=vec, in_place=False)
    got={p:{} for p in paths}
    argd=dict(zip(names,args))
    y0=np.asarray(args[1])
    # expand: vectorized names refer to first node; use get_variable_positions? simpler: vectorize False only for value check
    bad=[]
    if not vec:
        for p in paths:
            for var in ['a','b']:
                val=float(argd[f'{p}/lin/{var}']);
                if abs(val-ref[p][var])>1e-12: bad.append((p,var,val,ref[p][var]))
            val=float(y0[smap[f'{p}/lin/x']])
            if abs(val-ref[p]['x'])>1e-12: bad.append((p,'x',val,ref[p]['x']))
    else:
        # vectorized: all nodes share structure -> one vector in path order of get_nodes(all)
        order = c.get_nodes(['all'] if depth==0 else ['all','all'])
        for var in ['a','b']:
            key=[n for n in names if n.endswith(f'/lin/{var}')]
            vals=np.atleast_1d(np.asarray(argd[key[0]], dtype=float))
            if vals.size==1: vals=np.repeat(vals,len(order))
            for p,v in zip(order,vals):
                if abs(v-ref[p][var])>1e-12: bad.append((p,var,float(v),ref[p][var]))
        k=[n for n in smap if n.endswith('/lin/x')][0]; idx=smap[k]
        vals=y0[idx[0]:idx[1]] if isinstance(idx,tuple) else y0[[idx]]
        for p,v in zip(order,vals):
            if abs(v-ref[p]['x'])>1e-12: bad.append((p,'x',float(v),ref[p]['x']))
    clear_frontend_caches()
    return bad, hist, vec, depth
nbad=0
for seed in range(int(sys.argv[1])):
    try:
        bad,hist,vec,depth=trial(seed)
    except Exception as e:
        print(seed,'EXC',type(e).__name__,str(e)[:100]); continue
    if bad:
        nbad+=1
        if nbad<=5: print(seed, 'vec',vec,'depth',depth,'BAD',bad[:3],'hist',hist)
print('bad',nbad)
