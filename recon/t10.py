from h import *
import random, sys
def trial(seed, vec):
    rng=random.Random(seed); n=rng.randint(2,4)
    A=[round(rng.uniform(0.5,3),2) for _ in range(n)]
    op = OperatorTemplate(name='lin', equations=["x' = -a*x + u"], variables={'x': 'output(0.0)', 'a': 1.0, 'u': 'input(0.0)'})
    nodes={f'p{i}': NodeTemplate(name=f'n{i}', operators={op: {'a': A[i], 'x': 0.1*(i+1)}}) for i in range(n)}
    edges=[]; spec=[]
    used=set()
    for _ in range(rng.randint(1,5)):
        s,t=rng.randrange(n),rng.randrange(n)
        if (s,t) in used: continue
        used.add((s,t))
        w=round(rng.uniform(-2,2),2); d=rng.choice([None, round(rng.uniform(0.002,0.02),4)])
        e={'weight':w}
        if d: e['delay']=d
        edges.append((f'p{s}/lin/x', f'p{t}/lin/u', None, e)); spec.append((s,t,w,d or 0.0))
    c=CircuitTemplate(name='c', nodes=nodes, edges=edges)
    try:
        f,args,names,smap = vf(c, vectorize=vec, solver='scipy')
    except Exception as e:
        clear_frontend_caches(); return ('exc', type(e).__name__, str(e)[:80])
    has_hist = 'hist' in names
    pos={}
    for i in range(n):
        k=f'p{i}/lin/x'
        if k in smap and not isinstance(smap[k], tuple): pos[i]=smap[k]
        else:
            # vectorized: single entry covering all
            kk=[q for q in smap if q.endswith('/lin/x')][0]; rng_=smap[kk]; pos[i]=rng_[0]+i if isinstance(rng_,tuple) else rng_
    N=len(np.atleast_1d(args[1]))
    calls=[]
    def H(s):
        calls.append(s); return np.array([100.0*(i+1)+s for i in range(N)])
    t=0.5; y=np.array([0.01*(i+1) for i in range(N)])
    a=list(args[2:])
    if has_hist: a[0]=H
    try: r=np.array(f(t, y.copy(), *a)).copy()
    except Exception as e:
        clear_frontend_caches(); return ('exc', 'CALL '+type(e).__name__, str(e)[:60])
    bad=[]
    for j in range(n):
        u = r[pos[j]] + A[j]*y[pos[j]]
        exp = sum(w*((100.0*(pos[s]+1)+(t-d)) if d else y[pos[s]]) for (s,tt,w,d) in spec if tt==j)
        if abs(u-exp)>1e-6: bad.append((j,u,exp))
    clear_frontend_caches()
    if bad: return ('bad', bad[:3], spec, sorted(set(np.round(calls,6))))
    return None
for vec in [False, True]:
    bad=0; exc={}
    for s in range(int(sys.argv[1])):
        r=trial(s, vec)
        if r and r[0]=='bad':
            bad+=1
            if bad<4: print(vec, s, r)
        elif r: exc[r[1:]]=exc.get(r[1:],0)+1
    print('vec',vec,'bad',bad, exc)
