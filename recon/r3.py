from h import *
from pyrates.frontend.template.population import PopulationTemplate, Connectivity
dt=1e-3; A=[1.0,2.0,3.0]; X0=[0.5,0.3,0.8]
def ref(edges, steps):
    # edges: (s,t,w,d,sp)
    x=list(X0); chains=[]
    for (s,t,w,d,sp) in edges:
        n=int(round((d/sp)**2)); chains.append([0.0]*n)
    out=[]
    for k in range(steps):
        out.append(list(x))
        u=[0.0]*3
        for e,(s,t,w,d,sp) in enumerate(edges):
            u[t]+= w*chains[e][-1]
        dx=[-A[j]*x[j]+u[j] for j in range(3)]
        dch=[]
        for e,(s,t,w,d,sp) in enumerate(edges):
            n=len(chains[e]); r=n/d; z=chains[e]
            dch.append([r*((x[s] if i==0 else z[i-1]) - z[i]) for i in range(n)])
        x=[x[j]+dt*dx[j] for j in range(3)]
        for e in range(len(edges)):
            chains[e]=[chains[e][i]+dt*dch[e][i] for i in range(len(chains[e]))]
    return np.array(out)
def trial(edges, vec, conn=False):
    op = OperatorTemplate(name='lin', equations=["x' = -a*x + u"], variables={'x': 'output(0.0)', 'a': 1.0, 'u': 'input(0.0)'})
    ns = {f'p{i}': NodeTemplate(name=f'n{i}', operators={op: {'a': A[i], 'x': X0[i]}}) for i in range(3)}
    es=[(f'p{s}/lin/x', f'p{t}/lin/u', None, {'weight': w, 'delay': d, 'spread': sp}) for (s,t,w,d,sp) in edges]
    c = CircuitTemplate(name='c', nodes=ns, edges=es)
    R = run(c, {'o':'all/lin/x'}, T=0.05, dt=dt, solver='euler', vectorize=vec)
    r = ref(edges, 50)
    return np.abs(R.values - r).max()
E=[(0,1,2.0,0.004,0.002),(0,2,0.7,0.006,0.002),(2,1,1.1,0.004,0.002),(1,0,-0.5,0.005,0.0035)]
for vec in [False, True]:
    attempt(f'gamma vec={vec}', lambda: trial(E, vec))
# Connectivity with spread
def conn_trial():
    op = OperatorTemplate(name='lin', equations=["x' = -a*x + u"], variables={'x': 'output(0.0)', 'a': 1.0, 'u': 'input(0.0)'})
    n = NodeTemplate(name='n', operators=[op])
    pop = PopulationTemplate(name='pp', node=n, n=3, params={'lin/a': A, 'lin/x': X0})
    W = np.array([[0,0,0.3],[2.0,0,0],[0,0.9,0]])
    c = CircuitTemplate(name='c', populations={'pp': pop}, connections=[Connectivity('pp/lin/x','pp/lin/u', W, delays=0.004, spread=0.002)])
    R = run(c, {'o':'pp/lin/x'}, T=0.05, dt=dt, solver='euler', vectorize=True)
    edges=[(j,i,W[i,j],0.004,0.002) for i in range(3) for j in range(3) if W[i,j]]
    return np.abs(R.values - ref(edges,50)).max(), list(R.columns)
attempt('conn', conn_trial)
