from h import *
import random, sys, pickle, copy, hashlib, shutil
def freeze(o, seen=None):
    # structural snapshot of template graph
    if isinstance(o, CircuitTemplate):
        return ('C', o.name, tuple(sorted((k, freeze(v)) for k,v in o.circuits.items())), tuple((k, freeze(v)) for k,v in o.nodes.items()),
                tuple(freeze_edge(e) for e in o.edges), tuple(sorted((repr(k), freeze_edge(v)) for k,v in o._edge_map.items())))
    if isinstance(o, (NodeTemplate, EdgeTemplate)):
        return ('N', o.name, tuple((freeze(op), freeze(var)) for op,var in o.operators.items()))
    if isinstance(o, OperatorTemplate):
        return ('O', o.name, tuple(o.equations), freeze(o.variables))
    if isinstance(o, dict): return tuple((k, freeze(v)) for k,v in o.items())
    if isinstance(o, (list,tuple)): return tuple(freeze(v) for v in o)
    if isinstance(o, np.ndarray): return ('A', o.shape, tuple(o.flatten().tolist()))
    return o
def freeze_edge(e):
    return tuple(freeze(x) for x in e)
def build(rng):
    op = OperatorTemplate(name='lin', equations=["x' = -a*x + u"], variables={'x': 'output(0.5)', 'a': 2.0, 'u': 'input(0.0)'})
    eop = OperatorTemplate(name='eop', equations=["m = k*s"], variables={'m':'output(0.0)','k':0.5,'s':'input(0.0)'})
    et = EdgeTemplate(name='et', operators=[eop])
    n1 = NodeTemplate(name='n1', operators={op: {'a': 4.0}}); n2 = NodeTemplate(name='n2', operators=[op])
    def flat(name):
        return CircuitTemplate(name=name, nodes={'p1': n1, 'p2': n2, 'p3': n1}, edges=[('p1/lin/x','p2/lin/u',None,{'weight':2.0,'delay':0.004}),('p2/lin/x','p3/lin/u',et,{'weight':0.7}),('p3/lin/x','p1/lin/u',None,{'weight':-1.0})])
    if rng.random()<0.5: return flat('c'), 'all/lin/x'
    return CircuitTemplate(name='top', circuits={'ca': flat('ca'), 'cb': flat('cb')}, edges=[('ca/p1/lin/x','cb/p2/lin/u',None,{'weight':0.3})]), 'all/all/lin/x'
OPS=['run','grf','jac','get_nodes','get_edges','get_edge','collect_edges','get_node_template','getitem','to_yaml','deepcopy','update_template']
def do(op, T, outs, rng, i):
    hier = bool(T.circuits)
    if op=='run': run(T, {'o':outs}, in_place=False, vectorize=rng.random()<0.5)
    elif op=='grf': vf(T, in_place=False, vectorize=rng.random()<0.5, clear=True)
    elif op=='jac': T.get_jacobian_func('j', step_size=1e-3, in_place=False, vectorize=False, verbose=False, clear=True)
    elif op=='get_nodes': T.get_nodes(['all','all'] if hier else ['all'])
    elif op=='get_edges': T.get_edges('all','all')
    elif op=='get_edge': T.get_edge('ca/p1/lin/x','cb/p2/lin/u') if hier else T.get_edge('p1/lin/x','p2/lin/u')
    elif op=='collect_edges': T.collect_edges()
    elif op=='get_node_template': T.get_node_template('ca/p1' if hier else 'p1')
    elif op=='getitem': T['p1']
    elif op=='to_yaml': T.to_yaml(f'ydir/t{i}.yaml')
    elif op=='deepcopy': copy.deepcopy(T)
    elif op=='update_template': T.update_template(name='new', in_place=False)
blame={}
for seed in range(int(sys.argv[1])):
    rng=random.Random(seed); T,outs=build(rng); s0=freeze(T)
    for i in range(6):
        op=rng.choice(OPS)
        try: do(op,T,outs,rng,i)
        except Exception as e:
            blame[(op,'EXC',type(e).__name__, str(e)[:50], bool(T.circuits))]=blame.get((op,'EXC',type(e).__name__, str(e)[:50], bool(T.circuits)),0)+1
            clear_frontend_caches(); break
        clear_frontend_caches()
        if freeze(T)!=s0:
            blame[(op,'MUT', bool(T.circuits))]=blame.get((op,'MUT', bool(T.circuits)),0)+1; break
    shutil.rmtree('ydir', ignore_errors=True)
for k,v in sorted(blame.items(), key=lambda kv:-kv[1]): print(v,k)
