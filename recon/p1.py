import os, sys, pickle, random, json, tempfile, shutil
from h import *
OPS = {
 'lin': (["x' = -a*x + u"], {'x':'output(0.5)','a':2.0,'u':'input(0.0)'}),
 'tanh': (["x' = (-x + tanh(g*u + b))/tau"], {'x':'output(0.1)','g':1.5,'b':0.2,'tau':0.05,'u':'input(0.0)'}),
 'osc': (["v' = w", "w' = -k*v - c*w + u"], {'v':'output(1.0)','w':'variable(0.0)','k':4.0,'c':0.3,'u':'input(0.0)'}),
}
OUT = {'lin':'x','tanh':'x','osc':'v'}
def gen(rng, uniq):
    nn = rng.randint(1,4)
    kinds = [rng.choice(list(OPS)) for _ in range(nn)]
    spec = {'nodes': [], 'edges': [], 'vec': rng.random()<0.5, 'clear': True}
    for i,k in enumerate(kinds):
        over = {}
        for p,v in OPS[k][1].items():
            if isinstance(v,float) and rng.random()<0.5: over[p]=round(v*rng.uniform(0.5,2),3)
        spec['nodes'].append({'name': f'n{i}', 'op': k, 'opname': f'{k}{uniq}' , 'over': over})
    for _ in range(rng.randint(0,5)):
        s=rng.randrange(nn); t=rng.randrange(nn)
        spec['edges'].append((s,t,round(rng.uniform(-2,2),3)))
    return spec
def build(spec):
    optemps={}
    nodes={}
    for n in spec['nodes']:
        key=n['opname']
        if key not in optemps:
            eqs,vs = OPS[n['op']]
            optemps[key]=OperatorTemplate(name=key, equations=list(eqs), variables=dict(vs))
        nodes[n['name']] = NodeTemplate(name=n['name']+'_t', operators={optemps[key]: dict(n['over'])})
    edges=[]
    for s,t,w in spec['edges']:
        sn,tn = spec['nodes'][s], spec['nodes'][t]
        edges.append((f"{sn['name']}/{sn['opname']}/{OUT[sn['op']]}", f"{tn['name']}/{tn['opname']}/u", None, {'weight': w}))
    return CircuitTemplate(name='c', nodes=nodes, edges=edges)
def observe(spec, seed):
    c = build(spec)
    f,args,names,smap = vf(c, vectorize=spec['vec'])
    rng = np.random.default_rng(seed)
    y = rng.uniform(-1,1,size=np.shape(args[1]))
    r = np.array(f(0, y, *args[2:])).copy()
    obs = {'names': list(names), 'smap': {k:(list(v) if isinstance(v,tuple) else v) for k,v in smap.items()}, 'args': {n: np.array(a).tolist() for n,a in zip(names[1:],args[1:])}, 'r': r.tolist()}
    if spec['clear']: clear(c)
    return obs
def in_fork(fn):
    r,w = os.pipe(); pid=os.fork()
    if pid==0:
        os.close(r); d=tempfile.mkdtemp(); os.chdir(d)
        try: out=('ok',fn())
        except Exception as e: out=('exc', type(e).__name__+':'+str(e)[:100])
        os.write(w, pickle.dumps(out)); shutil.rmtree(d, ignore_errors=True); os._exit(0)
    os.close(w); data=b''
    while True:
        b=os.read(r,1<<16)
        if not b: break
        data+=b
    os.waitpid(pid,0); return pickle.loads(data)
if __name__=='__main__':
    mode = sys.argv[1]; uniqnames = len(sys.argv)>3
    bad=0
    for seed in range(int(sys.argv[2])):
        rng=random.Random(seed)
        specs=[gen(rng, f'_{i}' if (mode=='uniq' or uniqnames) else '') for i in range(4)]
        for sp in specs: sp['clear'] = (mode!='noclear') and sp['clear']
        refs=[in_fork(lambda sp=sp,i=i: observe(sp, seed*10+i)) for i,sp in enumerate(specs)]
        def hist():
            return [ (lambda: observe(sp, seed*10+i))() for i,sp in enumerate(specs)]
        def hist_safe():
            outs=[]
            for i,sp in enumerate(specs):
                try: outs.append(('ok',observe(sp, seed*10+i)))
                except Exception as e: outs.append(('exc', type(e).__name__+':'+str(e)[:100]))
            return outs
        st, got = in_fork(hist_safe)
        for i,(a,b) in enumerate(zip(refs, got)):
            if a!=b:
                bad+=1
                if bad<=6: print('seed',seed,'model',i, 'DIFF'); print('  ref',json.dumps(a)[:300]); print('  got',json.dumps(b)[:300])
    print('total diffs', bad)
