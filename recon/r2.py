from h import *
from pyrates.frontend.template.population import PopulationTemplate, Connectivity
def rec_factory(log):
    def rec(f):
        def g(t, y, *a):
            yc = np.array(y).copy(); r = f(t, y, *a); log.append((int(t), yc, np.array(r).copy())); return r
        return g
    return rec
dt=1e-3
A=[1.0,2.0,3.0]; X0=[0.5,0.3,0.8]
def nodes():
    ns={}
    for i in range(3):
        op = OperatorTemplate(name='lin', equations=["x' = -a*x + u"], variables={'x': f'output({X0[i]})', 'a': A[i], 'u': 'input(0.0)'})
        ns[f'p{i}'] = NodeTemplate(name=f'n{i}', operators=[op])
    return ns
def law(edges, log, smap_order):
    # edges: (s,t,w,n) ; log entries y ordered per smap_order list of node idx
    bad=[]
    traj = [e[1] for e in log]
    for k,(t,y,r) in enumerate(log):
        for j in range(3):
            uj = r[smap_order[j]] + A[j]*y[smap_order[j]]
            exp = sum(w*(traj[k-n][smap_order[s]] if k-n>=0 else 0.0) for (s,tt,w,n) in edges if tt==j)
            if abs(uj-exp) > 1e-9: bad.append((k,j,uj,exp))
    return bad[:3], len(bad)
def trial(edges, vec, solver='euler', spreads=None):
    log=[]
    # note: shared op name 'lin' with different defaults across nodes -> use per-node override instead
    op = OperatorTemplate(name='lin', equations=["x' = -a*x + u"], variables={'x': 'output(0.0)', 'a': 1.0, 'u': 'input(0.0)'})
    ns = {f'p{i}': NodeTemplate(name=f'n{i}', operators={op: {'a': A[i], 'x': X0[i]}}) for i in range(3)}
    es=[]
    for idx,(s,t,w,n) in enumerate(edges):
        d={'weight': w}
        if n: d['delay']= n*dt + 0.2*dt
        if spreads and spreads[idx]: d['spread']=spreads[idx]
        es.append((f'p{s}/lin/x', f'p{t}/lin/u', None, d))
    c = CircuitTemplate(name='c', nodes=ns, edges=es)
    R = run(c, {'o':'all/lin/x'}, T=0.03, dt=dt, solver=solver, decorator=rec_factory(log), vectorize=vec)
    # find order of state vars: y layout by initial values
    y0 = log[0][1]; order=[int(np.argmin(abs(y0-X0[i]))) for i in range(3)]
    return law(edges, log, order)
E1=[(0,1,2.0,5),(1,0,-1.5,0),(0,2,0.7,3),(2,0,1.1,2)]
for vec in [False, True]:
    print('mixed', vec, attempt('', lambda: trial(E1, vec)))
E2=[(0,1,2.0,5),(0,2,0.7,3),(2,1,1.1,4),(1,2,0.4,2)]   # all delayed >=2
for vec in [False, True]:
    print('alldelayed', vec, attempt('', lambda: trial(E2, vec)))
E3=[(0,1,2.0,5),(0,2,0.7,3)]
for vec in [False, True]:
    print('pure-delay + spread mix', vec, attempt('', lambda: trial(E3, vec, spreads=[None, 0.001])))
