import numpy as np, random, bisect, sys
from pyrates.backend.base.base_backend import DDEHistory
def ref_query(ts, ys, t):
    if t <= ts[0]: return ys[0]
    if t >= ts[-1]: return ys[-1]
    i = bisect.bisect_right(ts, t) - 1
    al = (t-ts[i])/(ts[i+1]-ts[i])
    return ys[i] + al*(ys[i+1]-ys[i])
def trial(seed):
    rng = random.Random(seed); nrng = np.random.default_rng(seed)
    cap = rng.choice([1,2,3,5,8,1024])
    class H(DDEHistory):
        _INITIAL_CAPACITY = cap
    shape = rng.choice([(), (1,), (3,), (2,2)])
    dtype = rng.choice([np.float64, np.float32, np.complex128])
    def rnd():
        v = nrng.normal(size=shape)
        if dtype is np.complex128: v = v + 1j*nrng.normal(size=shape)
        return np.asarray(v, dtype=dtype)
    t0 = rng.choice([0.0, -1.5, 2.0]); y0 = rnd()
    bounded = rng.random()<0.2
    ms = rng.randint(1,6) if bounded else None
    h = H(y0, t0=t0, max_steps=ms)
    ts=[float(t0)]; ys=[np.array(y0)]
    for step in range(rng.randint(1,60)):
        op = rng.random()
        if op<0.5:
            t = ts[-1] + rng.choice([1e-9, 0.1, rng.uniform(0.001, 2.0)])
            y = rnd(); 
            try:
                h.update(t, y)
                if bounded and len(ts) >= ms: return f'bounded overwrite at n={len(ts)} ms={ms}'
                ts.append(float(t)); ys.append(np.array(y)); y[...] = 99  # mutate caller array
            except IndexError:
                if not (bounded and len(ts) >= ms): return 'spurious IndexError'
        else:
            kind = rng.random()
            if kind<0.3: t = rng.choice(ts)
            elif kind<0.4: t = ts[0]-rng.uniform(0,3)
            elif kind<0.5: t = ts[-1]+rng.uniform(0,3)
            elif kind<0.6: t = np.nextafter(rng.choice(ts), rng.choice([-np.inf, np.inf]))
            else: t = rng.uniform(ts[0], ts[-1])
            got = np.array(h(t)); exp = ref_query(ts, ys, float(t))
            if got.shape != np.shape(exp) or not np.allclose(got, exp, rtol=1e-5 if dtype is np.float32 else 1e-12, atol=1e-6 if dtype is np.float32 else 1e-14):
                return f'query t={t} got={got} exp={exp} n={len(ts)} cap={cap}'
    return None
bad=0
for s in range(int(sys.argv[1])):
    r = trial(s)
    if r: bad+=1; print(s, r) if bad<6 else None
print('bad', bad)
