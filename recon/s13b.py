from h import *
import sys
backend=sys.argv[1]
def mk(eq, name):
    op = OperatorTemplate(name=name, equations=[eq], variables={'x': 'output(0.5)', 'a': 2.0, 'u': 'input(0.0)'})
    return CircuitTemplate(name='c', nodes={'p': NodeTemplate(name='n', operators=[op])})
kw = dict(vectorize=False, backend=backend, file_name='shared_fn')
def ev(f,a, y=3.0):
    if backend=='fortran':
        dy=np.array(a[2]).copy(); f(a[0], np.array([y]), dy, *a[3:]); return dy.tolist()
    return np.array(f(0, np.array([y]), *a[2:])).tolist()
cA = mk("x' = -a*x + u",'opA'); fA,aA,nA,_ = vf(cA, **kw); print('A', ev(fA,aA), 'expect [-6]')
cB = mk("x' = -a*x*x + u",'opB'); fB,aB,nB,_ = vf(cB, **kw); print('B', ev(fB,aB), 'expect [-18]'); print('A again', ev(fA,aA))
clear(cB)
cC = mk("x' = a*x*x*x + u",'opC'); fC,aC,nC,_ = vf(cC, **kw); print('C after clear', ev(fC,aC), 'expect [54]')
