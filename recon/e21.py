from h import *
def integ():
    op = OperatorTemplate(name='ig', equations=["x' = u"], variables={'x':'output(0.0)','u':'input(0.0)'})
    return CircuitTemplate(name='c', nodes={'p': NodeTemplate(name='n', operators=[op])})
dt=0.1; T=1.0; N=int(round(T/dt)); u = np.arange(1, N+1, dtype=float)**2
for b,solver in [('jax','euler'),('jax','heun'),('torch','euler'),('default','heun')]:
    def go():
        r = run(integ(), {'x':'p/ig/x'}, T=T, dt=dt, inputs={'p/ig/u': u}, solver=solver, backend=b)
        return np.round(np.diff(r.values.flatten())/dt, 4)
    attempt(f'{b} {solver}', go)
# adaptive interp per backend at probe times
for b in ['default','torch','jax']:
    def go():
        c = integ(); f,args,names,smap = vf(c, backend=b, solver='scipy', inputs={'p/ig/u': u}, step_size=dt, vectorize=False)
        import torch
        out=[]
        for t in [0.0, 0.05, 0.31, 0.5, 0.95, 1.0]:
            tt = torch.tensor(t) if b=='torch' else t
            y = torch.zeros(1, dtype=torch.float64) if b=='torch' else np.zeros(1)
            out.append(round(float(np.asarray(f(tt, y, *args[2:]))[0]), 4))
        return out, [round(float(np.interp(t, np.linspace(0,T,N), u)),4) for t in [0.0, 0.05, 0.31, 0.5, 0.95, 1.0]]
    attempt(f'interp {b}', go)
# torch euler with DDE
op = OperatorTemplate(name='dd', equations=["x' = -a*past(x, tau)"], variables={'x':'output(1.0)','a':50.0,'tau':0.01})
for b in ['default','torch']:
    c = CircuitTemplate(name='c', nodes={'p': NodeTemplate(name='n', operators=[op])})
    attempt(f'dde euler {b}', lambda: run(c, {'o':'p/dd/x'}, T=0.05, dt=1e-3, solver='euler', backend=b, vectorize=False).values[-1])
