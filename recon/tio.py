from h import *
from p1 import in_fork
import builtins, errno, pathlib, io
import pyrates.backend.base.base_backend as bb
def scenario_src():
    calls=[0]
    def bad_open(path, mode='r', *a, **k):
        if 'w' in mode:
            calls[0]+=1
            if calls[0]==1: raise OSError(errno.ENOSPC, 'No space left on device', str(path))
        return builtins.open(path, mode, *a, **k)
    bb.open = bad_open
    out=[]
    try:
        c=build2(); vf(c, vectorize=True); out.append('no-raise')
    except OSError as e: out.append('OSError')
    finally: del bb.open
    c2 = CircuitTemplate(name='c2', nodes={'q1': NodeTemplate(name='n', operators=[linop('lin2')]), 'q2': NodeTemplate(name='n', operators=[linop('lin2')])}, edges=[('q1/lin2/x','q2/lin2/u',None,{'weight':1.5})])
    f,args,names,smap = vf(c2, vectorize=True); out.append((names, smap)); return out
def ref_src():
    c2 = CircuitTemplate(name='c2', nodes={'q1': NodeTemplate(name='n', operators=[linop('lin2')]), 'q2': NodeTemplate(name='n', operators=[linop('lin2')])}, edges=[('q1/lin2/x','q2/lin2/u',None,{'weight':1.5})])
    f,args,names,smap = vf(c2, vectorize=True); return (names, smap)
a=in_fork(scenario_src); b=in_fork(ref_src); print('src-write fault:', a[1][0] if a[0]=='ok' else a, 'next model', 'SAME' if a[0]=='ok' and a[1][1]==b[1] else 'DIFF', a[1][1] if a[0]=='ok' else '', b[1])
# yaml write fault
def scenario_yaml():
    orig = pathlib.Path.open
    n=[0]
    class Short(io.StringIO):
        pass
    def bad(self, mode='r', *a, **k):
        if 'w' in mode:
            n[0]+=1
            if n[0]==1: raise OSError(errno.ENOSPC, 'No space left on device')
        return orig(self, mode, *a, **k)
    pathlib.Path.open = bad
    c=build2(); out=[]
    try: c.to_yaml('yy/a.yaml'); out.append('no-raise')
    except OSError: out.append('OSError')
    finally: pathlib.Path.open = orig
    out.append(n[0]); return out
print('yaml fault:', in_fork(scenario_yaml))
