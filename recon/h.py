import numpy as np, warnings, os, traceback
warnings.filterwarnings("ignore")
from pyrates import CircuitTemplate, NodeTemplate, OperatorTemplate, clear, clear_frontend_caches
from pyrates.frontend.template.edge import EdgeTemplate
def linop(name='lin', a=2.0, x0=0.5):
    return OperatorTemplate(name=name, equations=["x' = -a*x + u"], variables={'x': f'output({x0})', 'a': a, 'u': 'input(0.0)'})
def build2(w1=3.0, w2=-1.5, d=None):
    op = linop()
    n1 = NodeTemplate(name='n1', operators={op: {'a': 4.0}})
    n2 = NodeTemplate(name='n2', operators=[op])
    e1 = {'weight': w1}
    if d: e1['delay'] = d
    return CircuitTemplate(name='c', nodes={'p1': n1, 'p2': n2}, edges=[('p1/lin/x', 'p2/lin/u', None, e1), ('p2/lin/x','p1/lin/u',None,{'weight':w2})])
def run(c, outputs, T=0.01, dt=1e-3, **kw):
    kw.setdefault('verbose', False); kw.setdefault('clear', True); kw.setdefault('float_precision', 'float64')
    return c.run(T, dt, outputs=outputs, **kw)
def vf(c, **kw):
    kw.setdefault('verbose', False); kw.setdefault('float_precision', 'float64'); kw.setdefault('backend','default')
    f, args, names, smap = c.get_run_func('f', step_size=kw.pop('step_size',1e-3), **kw)
    return f, args, names, smap
def attempt(label, fn):
    try:
        r = fn(); print(label, 'OK', r); return r
    except Exception as e:
        print(label, 'EXC', type(e).__name__, str(e)[:200])
