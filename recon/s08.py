from h import *
import random, sys
def rec_factory(log):
    def rec(f):
        def g(t, y, *a):
            yc = np.array(y).copy(); r = f(t, y, *a); log.append((t, yc, np.array(r).copy())); return r
        return g
    return rec
def integ_node():
    op = OperatorTemplate(name='ig', equations=["x' = u"], variables={'x':'output(0.0)','u':'input(0.0)'})
    return NodeTemplate(name='n', operators=[op])
def trial(seed):
    rng=random.Random(seed)
    depth=rng.choice([0,1,2]); nn=rng.randint(1,4)
    def flat(name): return CircuitTemplate(name=name, nodes={f'p{i}': integ_node() for i in range(nn)})
    if depth==0: c=flat('c'); paths=[f'p{i}' for i in range(nn)]; allp='all'
    elif depth==1: c=CircuitTemplate(name='top', circuits={'ca':flat('ca'),'cb':flat('cb')}); paths=[f'{s}/p{i}' for s in ['ca','cb'] for i in range(nn)]; allp='all/all'
    else:
        c=CircuitTemplate(name='top', circuits={'ga':CircuitTemplate(name='ga', circuits={'ca':flat('ca'),'cb':flat('cb')}), 'gb':CircuitTemplate(name='gb', circuits={'cc':flat('cc')})})
        paths=[f'ga/{s}/p{i}' for s in ['ca','cb'] for i in range(nn)]+[f'gb/cc/p{i}' for i in range(nn)]; allp='all/all/all'
    dt=rng.choice([1e-3,0.01,0.1]); N=rng.randint(3,30); T=N*dt
    vec = rng.random()<0.6
    mode=rng.choice(['single','bcast','cols','n1'])
    inputs={}; exp={p: np.zeros(N) for p in paths}
    if mode=='single':
        p=rng.choice(paths); u=100+np.arange(N)/1024; inputs[f'{p}/ig/u']=u; exp[p]+=u
    elif mode=='n1':
        p=rng.choice(paths); u=100+np.arange(N)/1024; inputs[f'{p}/ig/u']=u[:,None]; exp[p]+=u
    elif mode=='bcast':
        u=200+np.arange(N)/1024; inputs[f'{allp}/ig/u']=u
        for p in paths: exp[p]+=u
    else:
        if not vec or len(paths)<2: return None
        U=np.array([[1000*(i+1)+k/1024 for i in range(len(paths))] for k in range(N)]); inputs[f'{allp}/ig/u']=U
        order=c.get_nodes(allp.split('/'))
        for i,p in enumerate(order): exp[p]+=U[:,i]
    solver=rng.choice(['euler','heun'])
    log=[]
    try:
        R = run(c, {'o': f'{allp}/ig/x'}, T=T, dt=dt, solver=solver, inputs=inputs, decorator=rec_factory(log), vectorize=vec)
    except Exception as e:
        clear_frontend_caches(); return ('exc', depth, mode, vec, type(e).__name__, str(e)[:80])
    # columns -> path ; check increments
    per = 1 if solver=='euler' else 2
    vals = R.values if R.values.ndim==2 else R.values[:,None]
    cols = list(R.columns)
    def colpath(col):
        if isinstance(col, tuple): return '/'.join(col[1:-1])
        return paths[0]
    bad=[]
    for ci,col in enumerate(cols):
        p = colpath(col) if len(paths)>1 else paths[0]
        x = vals[:,ci]
        inc = np.diff(x)/dt
        if not np.allclose(inc, exp[p][:N-1], rtol=1e-9, atol=1e-6): bad.append((p, inc[:3].tolist(), exp[p][:3].tolist()))
    if bad: return ('bad', depth, mode, vec, solver, bad[:2])
    return None
bad=0; excs={}
for s in range(int(sys.argv[1])):
    r=trial(s)
    if r and r[0]=='bad': bad+=1; print(s, r) if bad<8 else None
    elif r: excs[r[1:]]=excs.get(r[1:],0)+1
print('bad',bad); 
for k,v in excs.items(): print(v,k)
