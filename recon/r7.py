from h import *
from r4 import refdde
for solver in ['euler']:
  for t1 in [0.0073, 0.007]:
    op = OperatorTemplate(name='dd', equations=["x' = -a*past(x, tau1) + c*x"], variables={'x':'output(1.0)','a':30.0,'c':0.4,'tau1':t1})
    c = CircuitTemplate(name='c', nodes={'p': NodeTemplate(name='n', operators=[op])})
    R = run(c, {'o':'p/dd/x'}, T=0.06, dt=1e-3, solver=solver, vectorize=False)
    print(solver, t1, np.abs(R.values.flatten()-refdde(30.0,0.0,0.4,t1,0.001,1.0,60)).max())
# scipy vs fine reference
from scipy.integrate import solve_ivp
op = OperatorTemplate(name='dd', equations=["x' = -a*past(x, tau1) + c*x"], variables={'x':'output(1.0)','a':30.0,'c':0.4,'tau1':0.0073})
for rtol in [1e-3,1e-6,1e-9]:
    c = CircuitTemplate(name='c', nodes={'p': NodeTemplate(name='n', operators=[op])})
    R = run(c, {'o':'p/dd/x'}, T=0.06, dt=1e-3, solver='scipy', vectorize=False, rtol=rtol, atol=1e-12)
    # fine reference: euler-free RK4 method of steps with h=dt/50
    h=1e-3/50; n=int(round(0.06/h)); ts=np.arange(n+1)*h; xs=np.zeros(n+1); xs[0]=1.0
    def H(s,i):
        if s<=0: return 1.0
        return np.interp(s, ts[:i+1], xs[:i+1])
    for i in range(n):
        t=ts[i]; x=xs[i]
        f=lambda tt,xx: -30.0*H(tt-0.0073,i)+0.4*xx
        k1=f(t,x); k2=f(t+h/2,x+h/2*k1); k3=f(t+h/2,x+h/2*k2); k4=f(t+h,x+h*k3)
        xs[i+1]=x+h/6*(k1+2*k2+2*k3+k4)
    ref=np.interp(R.index.values, ts, xs)
    print('scipy rtol',rtol, np.abs(R.values.flatten()-ref).max())
