#!/bin/sh
# Offline setup: nothing is built or fetched.  Verifies the interpreter and imports the checks rely on,
# that pyrates resolves to /repo's working tree (editable install), and creates run-time directories.
set -e
cd "$(dirname "$0")"
mkdir -p evidence replays
export PATH=/venv/bin:$PATH
/venv/bin/python - <<'PY'
import sys, os
import numpy, scipy, sympy, pandas, networkx, ruamel.yaml  # noqa
import pyrates
root = os.path.realpath(os.path.dirname(os.path.dirname(pyrates.__file__)))
assert root == os.path.realpath('/repo'), f'pyrates imported from {root}, expected /repo'
assert os.path.isdir('/dev/shm') and os.access('/dev/shm', os.W_OK), '/dev/shm scratch space missing'
print('setup ok: python', sys.version.split()[0], 'pyrates from', root)
PY
