#!/usr/bin/env python3
"""False-alarm test: applies a behaviour-preserving change (benign/<id>/patch.diff) to a scratch copy of /repo and runs the
checks against it; every check must exit 0 (KNOWN-FINDING lines allowed).

  benign.py import <src_dir> <id> <property>
  benign.py run <id> [check ...]      # default: all ten checks at a third of the quick budget
  benign.py table
"""
import json, os, shutil, subprocess, sys, time
VERIF = os.path.dirname(os.path.dirname(os.path.abspath(__file__)))
BEN = os.path.join(VERIF, 'benign')
CHECKS = {'C03': 430, 'C07': 220, 'C08': 470, 'C09': 470, 'C10': 300, 'C11': 300, 'C13': 220, 'C14': 140, 'C15': 190, 'C19': 4000}


def sh(cmd, cwd=None, env=None, timeout=3600):
    e = dict(os.environ); e.update(env or {})
    p = subprocess.run(cmd, shell=True, cwd=cwd, env=e, stdout=subprocess.PIPE, stderr=subprocess.STDOUT, timeout=timeout)
    return p.returncode, p.stdout.decode(errors='replace')


def main():
    cmd = sys.argv[1]
    if cmd == 'import':
        src, i, prop = sys.argv[2:5]
        d = os.path.join(BEN, i); os.makedirs(d, exist_ok=True)
        for f in ('patch.diff', 'check.py', 'notes.md'):
            if os.path.exists(os.path.join(src, f)):
                shutil.copy(os.path.join(src, f), os.path.join(d, f))
        json.dump({'id': i, 'property': prop, 'origin': 'independent sub-agent asked for behaviour-preserving changes',
                   'base_commit': sh('git -C /repo rev-parse --short HEAD')[1].strip()}, open(os.path.join(d, 'meta.json'), 'w'), indent=1)
        print('imported', i)
    elif cmd == 'run':
        i = sys.argv[2]; which = sys.argv[3:] or list(CHECKS)
        d = os.path.join(BEN, i); m = json.load(open(os.path.join(d, 'meta.json')))
        scratch = f'/dev/shm/benign_{i}'
        shutil.rmtree(scratch, ignore_errors=True); os.makedirs(scratch)
        try:
            sh(f'git -C /repo archive HEAD pyrates model_templates | tar -x -C {scratch}')
            rc, out = sh(f'git init -q . && git apply {d}/patch.diff', cwd=scratch)
            if rc:
                print(i, 'patch does not apply:', out[-300:]); m['applies'] = False
            else:
                m['applies'] = True
                res = m.setdefault('checks', {})
                for c in which:
                    ev = os.path.join(VERIF, 'evidence', f'{c}.json'); keep = open(ev).read() if os.path.exists(ev) else None
                    t0 = time.time()
                    rc, out = sh(f'{VERIF}/check {c}', env={'VERIF_REPO': scratch, 'VERIF_RUNS': str(CHECKS[c])}, timeout=3000)
                    if keep is not None:
                        open(ev, 'w').write(keep)
                    vio = [l for l in out.splitlines() if l.startswith(('VIOLATION', 'violation:', '  detail', 'HARNESS'))]
                    res[c] = {'exit': rc, 'wall_s': round(time.time() - t0, 1), 'report': vio[:4],
                              'head': sh('git -C /repo rev-parse --short HEAD')[1].strip()}
                    print(i, c, 'exit', rc, vio[:3] if rc else '')
                    for l in vio:
                        if l.startswith('VIOLATION') and 'replay=' in l:
                            pth = l.split('replay=')[1].strip()
                            if os.path.exists(pth):
                                shutil.move(pth, os.path.join(d, os.path.basename(pth)))
            json.dump(m, open(os.path.join(d, 'meta.json'), 'w'), indent=1)
        finally:
            shutil.rmtree(scratch, ignore_errors=True)
    elif cmd == 'table':
        print('| id | property | applies | checks raising an alarm |'); print('|---|---|---|---|')
        for i in sorted(os.listdir(BEN)):
            m = json.load(open(os.path.join(BEN, i, 'meta.json')))
            bad = [c for c, r in (m.get('checks') or {}).items() if r['exit'] != 0]
            print(f"| {i} | {m['property']} | {m.get('applies')} | {', '.join(bad) or 'none'} ({len(m.get('checks') or {})} checks run) |")


if __name__ == '__main__':
    main()
