#!/usr/bin/env python3
"""Reach report: functions of the pyrates package never entered by the history processes of the checks.

  VERIF_FUNCCOV=1 ./check <ID>     (for every check; writes evidence/funccov-<ID>.json)
  python3 tools/funccov.py [subdir ...]   -> per file: functions defined (ast) that no check entered
"""
import ast, glob, json, os, sys
REPO = os.environ.get('VERIF_REPO', '/repo')
VERIF = os.path.dirname(os.path.dirname(os.path.abspath(__file__)))
reached = set()
by = {}
for f in glob.glob(os.path.join(VERIF, 'evidence', 'funccov-*.json')):
    pid = os.path.basename(f)[8:-5]
    for x in json.load(open(f)):
        reached.add(x)
        by.setdefault(x, set()).add(pid)
subdirs = sys.argv[1:] or ['frontend', 'ir', 'backend/base', 'backend/computegraph.py', 'backend/parser.py', 'utility.py',
                            'backend/fortran', 'backend/torch', 'backend/jax']
tot = hit = 0
for sd in subdirs:
    root = os.path.join(REPO, 'pyrates', sd)
    files = [root] if root.endswith('.py') else sorted(glob.glob(os.path.join(root, '**', '*.py'), recursive=True))
    for path in files:
        rel = os.path.relpath(path, os.path.join(REPO, 'pyrates'))
        try:
            tree = ast.parse(open(path).read())
        except Exception:
            continue
        miss = []
        for node in ast.walk(tree):
            if isinstance(node, (ast.FunctionDef, ast.AsyncFunctionDef)):
                tot += 1
                line = node.lineno if not node.decorator_list else node.decorator_list[0].lineno
                keys = {f'{rel}:{node.name}:{node.lineno}', f'{rel}:{node.name}:{line}'}
                if keys & reached:
                    hit += 1
                else:
                    miss.append(f'{node.name}:{node.lineno}')
        if miss:
            print(f'{rel}: NOT entered: {", ".join(miss)}')
print(f'functions defined: {tot}, entered by at least one check: {hit}')
