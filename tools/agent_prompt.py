#!/usr/bin/env python3
"""prints the prompt given to a fresh sub-agent for property <id> (only the property text + its worktree)"""
import json, sys
pid = sys.argv[1]
wt = sys.argv[2] if len(sys.argv) > 2 else f'/tmp/wt_{pid}'
p = [json.loads(l) for l in open('/verif/properties.jsonl') if json.loads(l)['id'] == pid][0]
print(f"""You are helping to evaluate how well a verification harness detects regressions in the Python package
PyRates (a code generator that compiles dynamical-system network templates into NumPy/Fortran/Torch/JAX code).

You have your own scratch git worktree of the repository at {wt} . Work ONLY inside {wt} (and, if you need
temporary files, inside {wt}/_mutation/). Never read or write /repo or /verif, they are off limits.

Here is a semantic property that the package is supposed to satisfy:

  Title: {p['title']}
  Statement: {p['statement']}
  Quantifier: {p['quantifier']['text']}
  Relevant files (hint): {', '.join(p['anchors']['files'])}

YOUR TASK: produce TWO independent, different source changes (mutations) to the package under {wt}/pyrates that each BREAK
this property while the package still imports and the existing test suite still passes. They should look like
realistic regressions a developer could introduce (an off-by-one, a dropped copy, a wrong index, a cache key that is too
coarse, a condition that is subtly wrong, two sites that each look fine alone...). IMPORTANT: prefer changes that need
something SPECIFIC to manifest - a particular sequence of several operations, a particular configuration or unusual
input, a fault/exception at a particular point, a particular interleaving of calls on two models - NOT changes that any
ordinary use would expose at once. Each change should be small (a few lines).

How to run things:
  * Python interpreter: /venv/bin/python . The package is installed in editable mode pointing at /repo, so to import
    YOUR worktree's copy you MUST put the worktree first on the path:  cd {wt} && PYTHONPATH={wt} /venv/bin/python ...
    (check with: PYTHONPATH={wt} /venv/bin/python -c "import pyrates; print(pyrates.__file__)")
  * Existing test suite (must still pass with your change; baseline is 49 passed and exactly 2 failures in
    tests/test_auto_emission.py which fail on the unchanged tree too):
      cd {wt} && PYTHONPATH={wt} /venv/bin/python -m pytest -q -p no:cacheprovider --timeout=900 tests
    (takes about 1-2 minutes). Run scripts that compile models from a scratch directory such as {wt}/_mutation/run
    because PyRates writes generated files (pyrates_run.py etc.) into the current working directory.
  * There is no network access. Do not install anything.

For EACH of the two mutations (call them m1 and m2) deliver, under {wt}/_mutation/m1 and {wt}/_mutation/m2:
  - patch.diff : the change as a unified diff produced by `git -C {wt} diff` (relative to the worktree HEAD), applying
    to the pyrates/ sources only (no test changes, no new files outside pyrates/).
  - demo.py : a small standalone program (run as: cd <scratch dir> && PYTHONPATH=<repo root> /venv/bin/python demo.py)
    that exits 0 and prints PASS on the unchanged tree and exits 1 and prints FAIL with the mutation applied,
    demonstrating the violation of the property through the public API.
  - notes.md : 5-10 lines: what the change is, why it violates the property, and what specific circumstances are needed
    for it to manifest (and why the existing tests do not notice).
Make sure that after producing m1's patch you revert the worktree (git -C {wt} checkout -- pyrates) before developing m2,
so that the two patches are independent and each applies to the clean HEAD. Verify for each mutation: (a) demo passes on
clean tree, (b) demo fails with the patch, (c) the test suite result with the patch is still 49 passed / 2 failed.
Leave the worktree clean (git checkout -- pyrates) at the end; only the _mutation/ directory should remain.
In your final answer, summarise both mutations in a few lines each and state the results of (a), (b), (c).""")
