#!/venv/bin/python
"""Regenerates /verif/MANIFEST.json from the table below and validates it against the schema."""
import json, os, sys
HERE = os.path.dirname(os.path.dirname(os.path.abspath(__file__)))

TECH = 'deterministic simulation with fault injection: seeded search over operation/fault/schedule traces, '

CLAIMED = {
    'C03': dict(
        technique=TECH + 'recorded RHS-call history of the real solver loops checked against exact solver/storage '
                         'laws and a reference integrator; RHS fault injection',
        text='Every RHS evaluation of CircuitTemplate.run is recorded through the decorator= seam and the history is '
             'checked event by event: evaluation count and clock, bit-exact Euler/Heun step law in the run dtype, '
             'stored rows == iterates by column label, time axis, cutoff row set, vector field == reference network '
             '(RefNet) at every evaluation, adaptive solvers against a replica (scipy with identical settings on the '
             'reference field, 1e-9) and a DOP853 rtol=1e-12 reference within a calibrated tolerance; injected RHS '
             'exceptions must propagate. Seeded sampling of (model, dt, sampling ratio, rows, cutoff, solver, '
             'precision, vectorize, inputs); evidence, not proof.',
        note='Trusted: numpy/scipy, the RefNet reference semantics of the five library operators, DOP853@1e-12 as '
             'ground truth. Backends: numpy and torch (own euler/scipy loops, recorded evaluation by evaluation), jax '
             '(lax.scan euler/heun, scipy wrapper, diffrax: rows against the reference iterates / reference solution, no '
             'per-evaluation record possible), fortran (f2py build per run, thorough tier only). Known findings '
             'KF-C03-* are listed in known_findings.json.',
        ref='§3 C03'),
    'C07': dict(
        technique=TECH + 'override histories over aliased template objects vs a reference value dict, judged by a '
                         'pristine observer process',
        text='Seeded histories of update_var (scalar, per-node array, wildcards at any level; constants and initial '
             'values; edge attributes), compile-time node_values/edge_values and deep copies over circuits whose nodes '
             'share NodeTemplate/OperatorTemplate objects. After every prefix a pristine observer compiles a pickled '
             'snapshot; a plain reference dict states the value of every node/op/var and edge: arguments and initial '
             'state by frontend name (exact), vector field at probe states and a vectorized labelled run against the '
             'reference network (1e-9). Sampling of histories and aliasing patterns.',
        note='Trusted: reference semantics of each override op (documented meaning), RefNet. Path order of wildcard '
             'targets is taken to be declaration order. Known finding KF-C07-stale-state-* confined to its stratum.',
        ref='§3 C07'),
    'C08': dict(
        technique=TECH + 'recorded RHS-call history with unique decodable input samples; attribution law at every '
                         'evaluation',
        text='Input arrays carry unique, decodable samples (which input, which column, which sample). run() is executed '
             'with euler, heun and scipy while every RHS evaluation is recorded; at EVERY evaluation the summed input '
             'each unit received is recovered exactly from (y, dy) and must equal the addressed samples (sample k during '
             'step k, both Heun stages; linear interpolation on linspace(0, T, N) for adaptive solvers) plus the '
             'incoming edges. Shapes (N,), (N,1), (N,n) per-node columns, broadcast, wildcard/sub-circuit targets, '
             'several inputs and edges on one variable, hierarchy depth 0-2, vectorize on/off; functions from '
             'get_run_func are probed directly at seeded times.',
        note='Trusted: exact invertibility of the library operators for the summed input; declaration order = path '
             'order. Default backend only (torch/jax/fortran input helpers are out of reach of the quick tier). Known '
             'finding KF-C08-input-depth2 (loud).',
        ref='§3 C08'),
    'C09': dict(
        technique=TECH + 'recorded evaluation history of a STATEFUL generated function (ring buffers) vs the delay-line '
                         'recurrence over the recorded trajectory',
        text='Circuits with any mixture of delayed (round(d/dt) in 2..12, off-grid delays) and undelayed edges, several '
             'delays per source and several edges per target, scalar nodes and Population/Connectivity (matrix and '
             'scalar weights), vectorize on/off, matrix_sparseness knob randomised, are run with euler (and heun) or '
             'stepped by the harness through the function and argument tuple from get_run_func; every RHS evaluation is '
             'recorded and at EVERY evaluation the input each unit received (recovered exactly) must equal '
             'sum_e w_e * y_src[k - n_e] taken from the recorded trajectory, zero before the start.',
        note='Trusted: exact invertibility of the library operators; n_e = int(np.round(d/dt)). Known findings: heun '
             'double roll, two delayed Connectivity objects per source.',
        ref='§3 C09'),
    'C10': dict(
        technique=TECH + 'decodable fake history at the hist seam (function level) and a recording DDEHistory subclass + '
                         'RHS spy (run level) checked against a method-of-steps replica',
        text='Function level: the compiled function of models with past(x,tau) / x(t-tau) operators and of delayed edges '
             'under an adaptive solver is evaluated with an affine, per-component-distinct fake history, so the derivative '
             'reveals which component was read at which time (L-comp) and the query times must be exactly {t - tau_j} in '
             'time units for both fixed-step and adaptive functions (L-query). Run level: a recording subclass of the '
             'real DDEHistory is installed at the module-attribute seam during run(euler|heun|scipy); updates must be '
             '((k+1)dt, y_{k+1}) / monotone, queries before 0 return the initial state and later ones the interpolant '
             'of what was fed, every Euler-stage derivative must equal the reference with delayed terms read from the '
             'piecewise-linear interpolant of the recorded trajectory (1e-9), adaptive runs stay within 1e-2*max|y| of '
             'a fine-step RK4 method-of-steps reference.',
        note='Trusted: RefNet semantics incl. the two delay notations; RK4(h=dt/40)+linear history as adaptive reference. '
             'Loudly refused DDE forms are discarded and counted. Known finding KF-C10-vectorized-tau-first-element.',
        ref='§3 C10'),
    'C11': dict(
        technique=TECH + 'lock-step simulation against the explicitly written augmented linear-chain system, incl. an '
                         'earlier kernel model compiled in the same process',
        text='Circuits with any mixture of (delay, spread) pairs ((d/s)^2 in [1, 12.4], pairs rounding to the same and '
             'to different orders, .5 boundaries, optional dde_approx), edges sharing sources/targets, several kernels per '
             'source, vectorize on/off, scalar nodes and Population/Connectivity(delays, spread) are run with euler and '
             'with adaptive solvers; the harness builds the explicit chain system (n = round((d/s)^2) stages of rate '
             'n/d per edge, unit gain, mean d by construction) and steps it with the same dt: every user variable must '
             'agree at EVERY stored step (1e-9; adaptive: same scipy method on the explicit system, 1e-6).',
        note='Trusted: RefNet/RefGamma semantics, Python/numpy rounding agreement away from exact .5. No open '
             'known finding (the buffer-read-before-refresh defect was traced and repaired, commit 4fd01b0).',
        ref='§3 C11'),
    'C13': dict(
        technique=TECH + 'interleaved user workflows in one process vs each workflow alone in a pristine fork '
                         '(refinement), with API/interrupt/I-O/RHS faults and cache wipes',
        text='2-4 seeded user workflows (construct by Python classes or YAML, update_var, get_run_func, '
             'get_jacobian_func, run with clear/in_place on and off, probes of functions returned earlier, clear, '
             'clear_frontend_caches) are interleaved by a seeded scheduler in one process while faults are injected '
             '(legitimately failing models, sys.settrace interruption at the n-th internal call, RHS exceptions, OSError '
             'on source-file write/remove incl. torn files, cache wipes by another workflow, stale generated files, '
             'colliding operator/circuit/file/function names, shared template objects). Every observation must equal '
             'the one at the same position when that workflow alone runs in a pristine forked process; returned '
             'functions must keep their values (L-keep). Sampling of histories, not proof.',
        note='Trusted: fork() gives a pristine interpreter state; canonical observation (args by frontend name, state '
             'map, vector field at probe states, run frames) is what a user can see. Default backend only in the quick '
             'tier. Generator respects documented contracts (in_place=True consumes a template; from_yaml caches by '
             'path).',
        ref='§3 C13'),
    'C14': dict(
        technique=TECH + 'histories of read-only/copy-making API calls (+ I/O faults in to_yaml) with structural and '
                         'behavioural fingerprints after every op, behaviour judged by a pristine observer process',
        text='A template with aliasing (shared operator/node objects, overrides, flat or hierarchical, Python- or '
             'YAML-built) and a sibling sharing its objects go through seeded histories of operations documented as '
             'non-mutating (run/get_run_func/get_jacobian_func with in_place=False, get_nodes, get_edges, get_edge, '
             'collect_edges, get_node_template, __getitem__, to_yaml with and without injected OSError/torn write, '
             'deepcopy, update_template). After EVERY op the deep-frozen structure of template and sibling must equal '
             'the one at construction, a pristine observer must compile the pickled snapshot to the same model, and '
             'repeated in_place=False calls must return the same result.',
        note='Trusted: fork() before the history gives a pristine observer; pickling a shallow copy without _ir and run '
             'bookkeeping preserves what the user declared. Known finding KF-C14-stale-run-bookkeeping (loud).',
        ref='§3 C14'),
    'C15': dict(
        technique=TECH + 'save/restart/load generations on a simulated durable store with I/O faults; derived and dual '
                         'definitions judged by a pristine observer process',
        text='The YAML file is durable storage, clear_frontend_caches() plus a pristine observer process that loads the '
             'file itself is a restart. Seeded models (flat/two-level, shared operators, edge attributes, definition-dict '
             'and string declarations) go through 1-4 save -> restart -> load generations, with an injected OSError or '
             'torn write during a save in fault runs: the recovered model must equal the original (names included), '
             'generations must be a fixpoint (file text from generation 2), a failed save must leave template and process '
             'unharmed and the retry must round-trip. On the same machinery: Python-built == YAML-built (L-dual) and a '
             'template derived via base: + overrides + equation edit dictionary over identifiers that contain one another '
             '== the explicitly written template, with the base left unchanged (L-inherit).',
        note='Trusted: the pristine observer (fork before the history), the regex tokenizer that produces the expected '
             'derived equations. Only L-recover/L-fixpoint/L-torn use what the simulator adds; L-dual/L-inherit ride on '
             'the same runs. Known finding KF-C15-shared-operator-overrides (R14).',
        ref='§3 C15'),
    'C19': dict(
        technique=TECH + 'stateful machine on the real DDEHistory vs a pure-Python reference history',
        text='Seeded exploration of update/query/caller-mutation/allocation-fault histories on the real DDEHistory '
             '(per-run _INITIAL_CAPACITY so growth happens dozens of times per history), every query compared with '
             'a bisect-over-list reference, full record sweep after every growth, refusal or injected MemoryError. '
             'Sampling, not proof: the class is small and the op space is covered densely (20k histories quick).',
        note='Trusted: numpy dtype casting, the pure-Python reference (sim in checks/c19.py), JSON float round-trip. '
             'Assumes increasing update times (duplicates only with identical states).',
        ref='§3 C19'),
}

_P = 'check under construction in this session (planned as claimed, see DESIGN §0/§3); not decided yet'
PENDING = {}

NA = {
    'C01': 'pure function of (model, state, parameters): no schedule, clock, fault or history in the statement; '
           'a simulator has nothing to interleave or break (DESIGN §1.3, §5)',
    'C02': 'static per-backend code-generation equality; its solver-loop clause is decided under C03 and its '
           'input-interpolation clause under C08 (DESIGN §5)',
    'C04': 'compile-time equivalence vectorize on/off; the stateful clauses (ring buffers, kernel chains) are decided '
           'under C09/C11 (DESIGN §5)',
    'C05': 'meaning of an equation string: pure function of its input (DESIGN §5)',
    'C06': 'path -> column mapping is a pure function of (circuit, request); the stale-bookkeeping corner is a history '
           'effect covered by C13/C14 (DESIGN §5)',
    'C12': 'pointwise derivative identity, pure (DESIGN §5)',
    'C16': 'static equivalence of two network encodings; its delay/spread clauses run inside the C09/C11 workloads '
           '(DESIGN §5)',
    'C17': 'differential equality of two ways of running a sweep; no schedule, clock or fault in it (DESIGN §5)',
    'C18': 'mutual consistency of emitted text files: static (DESIGN §5)',
    'C20': 'static validation matrix backend x solver x option; no history or fault dimension (DESIGN §5)',
}


def main():
    checks = []
    for pid in sorted(CLAIMED):
        c = CLAIMED[pid]
        checks.append({
            'property_id': pid,
            'quick_cmd': f'./check {pid} --tier quick',
            'thorough_cmd': f'./check {pid} --tier thorough',
            'evidence_file': f'/verif/evidence/{pid}.json',
            'replay_cmd_template': f'./check {pid} --replay {{path}}',
            'engine': 'pyrates-dst',
            'level_claimed': {'category': 'exploration', 'text': c['text'], 'design_ref': c['ref']},
            'level_note': c['note'],
            'technique': c['technique'],
        })
    na = [{'property_id': k, 'reason': v} for k, v in sorted({**NA, **PENDING}.items())]
    m = {
        'version': 1,
        'setup_cmd': './setup.sh',
        'hooks': {
            'guard': 'PYRATES_VERIF',
            'enable': 'no hooks exist: every seam used (decorator=, hist=, inputs=, file_name= keywords; module '
                      'attribute patching; sys.settrace; fork) is already present in the shipped code, so checks run '
                      '/repo as it is',
            'baseline_off_cmd': 'cd /repo && /venv/bin/python -m pytest -ra -q -p no:cacheprovider --timeout=900 '
                                '--continue-on-collection-errors',
            'source_commits': [],
            'add_only': True,
        },
        'engines': [{
            'name': 'pyrates-dst', 'path': '/verif/sim',
            'serves_properties': sorted(CLAIMED),
            'kind_free_text': 'own deterministic simulator: fork-per-run pristine processes, seeded trace generator, '
                              'scheduler over user workflows and integration steps, fault injector (API faults, '
                              'settrace interruption, I/O errors, allocation faults, cache wipes), history oracles, '
                              'ddmin minimiser, replay',
        }],
        'checks': checks,
        'not_applicable': na,
        'notes': 'Exit codes: 0 held, 1 VIOLATION, 2 HARNESS-ERROR (timeouts/crashes of the machinery are never '
                 'reported as a pass). VERIF_SEED and VERIF_TIER are honoured; VERIF_RUNS / VERIF_BUDGET_S override '
                 'the per-tier budget. Known findings: /verif/known_findings.json (never written at run time).',
    }
    path = os.path.join(HERE, 'MANIFEST.json')
    with open(path, 'w') as f:
        json.dump(m, f, indent=1)
    try:
        import jsonschema
        jsonschema.validate(m, json.load(open('/root/.vp/MANIFEST.schema.json')))
        print('MANIFEST.json valid;', len(checks), 'checks,', len(na), 'not applicable')
    except ImportError:
        print('MANIFEST.json written (jsonschema not available for validation)')
    ids = {c['property_id'] for c in checks} | {n['property_id'] for n in na}
    want = {json.loads(l)['id'] for l in open(os.path.join(HERE, 'properties.jsonl'))}
    assert ids == want, (want - ids, ids - want)


if __name__ == '__main__':
    main()
