#!/usr/bin/env python3
"""Bookkeeping for seeded changes (/verif/seeded/<id>/): import from a sub-agent's worktree, confirm the change
(demo passes on the clean tree, fails with the patch, pinned suite still green), and run checks against it.

  seeded.py import <src_dir> <id> <property> "<needs>"
  seeded.py verify <id>            # scratch git worktree of /repo HEAD under /tmp, removed afterwards
  seeded.py detect <id> [check-id ...] [--tier quick] [--runs N]   # scratch copy on /dev/shm + VERIF_REPO
  seeded.py table
Nothing here ever writes to /repo.
"""
import json, os, shutil, subprocess, sys, time

VERIF = os.path.dirname(os.path.dirname(os.path.abspath(__file__)))
SEEDED = os.path.join(VERIF, 'seeded')
PY = '/venv/bin/python'


def sh(cmd, cwd=None, env=None, timeout=3600):
    e = dict(os.environ)
    e.update(env or {})
    p = subprocess.run(cmd, shell=True, cwd=cwd, env=e, stdout=subprocess.PIPE, stderr=subprocess.STDOUT, timeout=timeout)
    return p.returncode, p.stdout.decode(errors='replace')


def meta_path(i):
    return os.path.join(SEEDED, i, 'meta.json')


def load(i):
    return json.load(open(meta_path(i)))


def save(i, m):
    json.dump(m, open(meta_path(i), 'w'), indent=1)


def cmd_import(src, i, prop, needs):
    d = os.path.join(SEEDED, i)
    os.makedirs(d, exist_ok=True)
    for f in ('patch.diff', 'demo.py', 'notes.md'):
        if os.path.exists(os.path.join(src, f)):
            shutil.copy(os.path.join(src, f), os.path.join(d, f))
    m = {'id': i, 'property': prop, 'needs_to_manifest': needs, 'origin': 'independent sub-agent given only the property '
         'text and a scratch worktree', 'base_commit': sh('git -C /repo rev-parse --short HEAD')[1].strip()}
    save(i, m)
    print('imported', i)


def cmd_verify(i):
    m = load(i)
    d = os.path.join(SEEDED, i)
    wt = f'/tmp/sw_{i}'
    sh(f'git -C /repo worktree remove --force {wt}')
    rc, out = sh(f'git -C /repo worktree add -q --detach {wt} HEAD')
    assert rc == 0, out
    try:
        run = os.path.join(wt, '_run')
        os.makedirs(run, exist_ok=True)
        env = {'PYTHONPATH': wt}
        rc_clean, out_clean = sh(f'{PY} {d}/demo.py', cwd=run, env=env, timeout=900)
        rc_apply, out_apply = sh(f'git -C {wt} apply --3way {d}/patch.diff')
        if rc_apply != 0:
            rc_apply, out_apply = sh(f'git -C {wt} apply {d}/patch.diff')
        assert rc_apply == 0, 'patch does not apply: ' + out_apply
        shutil.rmtree(run, ignore_errors=True); os.makedirs(run)
        rc_mut, out_mut = sh(f'{PY} {d}/demo.py', cwd=run, env=env, timeout=900)
        rc_suite, out_suite = sh(f'{PY} -m pytest -q -p no:cacheprovider --timeout=900 --continue-on-collection-errors tests',
                                 cwd=wt, env=env, timeout=3000)
        tail = out_suite.strip().splitlines()[-1] if out_suite.strip() else ''
        m['verified'] = {'demo_clean_exit': rc_clean, 'demo_patched_exit': rc_mut, 'suite_with_patch': tail,
                         'head': sh('git -C /repo rev-parse --short HEAD')[1].strip(),
                         'ran': [f'cd {wt}/_run && PYTHONPATH={wt} {PY} demo.py  (before and after git apply patch.diff)',
                                 f'cd {wt} && PYTHONPATH={wt} {PY} -m pytest -q -p no:cacheprovider --timeout=900 tests']}
        ok = rc_clean == 0 and rc_mut != 0 and '49 passed' in tail and '2 failed' in tail
        m['verified']['ok'] = ok
        save(i, m)
        print(i, 'verified' if ok else 'NOT CONFIRMED', m['verified'])
        if not ok:
            print(out_clean[-800:], '\n----\n', out_mut[-800:], '\n----\n', out_suite[-800:])
    finally:
        sh(f'git -C /repo worktree remove --force {wt}')
        shutil.rmtree(wt, ignore_errors=True)


def cmd_detect(i, checks, tier='quick', runs=None):
    m = load(i)
    d = os.path.join(SEEDED, i)
    scratch = f'/dev/shm/seeded_{i}'
    shutil.rmtree(scratch, ignore_errors=True)
    os.makedirs(scratch)
    try:
        sh(f'git -C /repo archive HEAD pyrates model_templates | tar -x -C {scratch}')
        rc, out = sh(f'git init -q . && git apply {d}/patch.diff', cwd=scratch)
        if rc != 0:
            rc, out = sh(f'patch -p1 < {d}/patch.diff', cwd=scratch)
        assert rc == 0, out
        for c in checks or [m['property']]:
            env = {'VERIF_REPO': scratch}
            if runs:
                env['VERIF_RUNS'] = str(runs)
            t0 = time.time()
            rc, out = sh(f'./check {c} --tier {tier}', cwd=VERIF, env=env, timeout=7200)
            lines = [l for l in out.splitlines() if l.startswith(('VIOLATION', 'violation:', 'HARNESS', '  detail'))]
            m.setdefault('detection', {})[f'{c}:{tier}'] = {
                'exit': rc, 'detected': rc == 1, 'wall_s': round(time.time() - t0, 1),
                'report': lines[:4], 'head': sh('git -C /repo rev-parse --short HEAD')[1].strip()}
            print(i, c, tier, 'exit', rc, lines[:3])
            # restore the evidence file written by the run on the mutated tree
            sh(f'git -C {VERIF} checkout -- evidence/{c}.json')
        save(i, m)
    finally:
        shutil.rmtree(scratch, ignore_errors=True)


def cmd_table():
    rows = []
    for i in sorted(os.listdir(SEEDED)):
        if not os.path.exists(meta_path(i)):
            continue
        m = load(i)
        det = '; '.join(f"{k}: {'DETECTED' if v['detected'] else 'missed'}" for k, v in m.get('detection', {}).items())
        rows.append(f"| {i} | {m['property']} | {m.get('verified', {}).get('ok')} | {det} | {m['needs_to_manifest'][:90]} |")
    print('| id | property | confirmed | detection | needs |\n|---|---|---|---|---|')
    print('\n'.join(rows))


if __name__ == '__main__':
    a = sys.argv[1:]
    if a[0] == 'import':
        cmd_import(a[1], a[2], a[3], a[4])
    elif a[0] == 'verify':
        cmd_verify(a[1])
    elif a[0] == 'detect':
        tier, runs, checks = 'quick', None, []
        rest = a[2:]
        while rest:
            x = rest.pop(0)
            if x == '--tier':
                tier = rest.pop(0)
            elif x == '--runs':
                runs = rest.pop(0)
            else:
                checks.append(x)
        cmd_detect(a[1], checks, tier, runs)
    elif a[0] == 'table':
        cmd_table()
