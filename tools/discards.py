#!/usr/bin/env python3
"""Loud-refusal profile of a check's workload on some tree (VERIF_REPO=<dir> selects the tree): executes the first N quick
traces WITHOUT stopping at violations and prints how often each discard reason occurs.  Used to compare the current tree
with the pinned one: a refusal that has become MORE frequent is a regression candidate hiding in the discard bucket."""
import os, sys, json, collections
VERIF = os.path.dirname(os.path.dirname(os.path.abspath(__file__)))
repo = os.environ.get('VERIF_REPO', '/repo')
sys.path.insert(0, repo); sys.path.insert(0, VERIF)
os.environ['PATH'] = '/venv/bin:' + os.environ.get('PATH', '')
import importlib
pid, n = sys.argv[1], int(sys.argv[2])
import pyrates  # noqa
from sim.driver import make_trace, _exec_entry
from sim.pool import ForkPool
check = importlib.import_module(f'checks.{pid.lower()}').CHECK
check.prepare_parent()
pool = ForkPool(jobs=16, timeout=check.timeout)
traces = [make_trace(check, 0, 'quick', i) for i in range(n)]
disc, laws, st_ = collections.Counter(), collections.Counter(), collections.Counter()
for tid, status, payload in pool.imap(_exec_entry, [(i, (check, t)) for i, t in enumerate(traces)]):
    st_[status] += 1
    if status == 'ok':
        if payload.get('discard'):
            disc[str(payload['discard'])[:70]] += 1
        for v in payload.get('violations', [])[:1]:
            laws[f"{v.get('law')}/{v.get('cls')}"] += 1
pool.cleanup()
print(json.dumps({'tree': pyrates.__file__, 'runs': n, 'status': st_, 'discards': disc, 'first_violation_laws': laws}, indent=1))
