"""C08 — extrinsic inputs are applied at the right time to the right unit.

Every input array is built so that each sample is unique and decodable: u[k, i] = 8*id + i/4 + k/4096.  The recorded
RHS-call history (decorator= seam) is checked at EVERY evaluation: the input a unit actually received (recovered
exactly from its derivative) must be the sum of the addressed samples and of the incoming edges.
"""
import copy, json
import scipy.integrate  # noqa
from sim.driver import Check, KF, digest
from sim import models
from sim.shrink import with_key, drop_chunks


res_vec = [False]


def sample(inp_id, k, col=0):
    return 8.0 * inp_id + col / 4.0 + k / 4096.0


def wrap_level(spec, name='top', key='g'):
    inner = {k: v for k, v in spec.items() if k not in ('ops', 'nts', 'build', 'ets')}
    out = {'name': name, 'build': spec.get('build', 'python'), 'ops': spec['ops'], 'nts': spec['nts'],
           'circuits': {key: inner}, 'edges': []}
    if spec.get('ets'):
        out['ets'] = spec['ets']
    return out


class C08(Check):
    pid = 'C08'
    timeout = 90.0
    quick_runs = 1400
    thorough_budget_s = 900
    rule = ('one run = one seeded circuit (hierarchy depth 0-2) with 1-3 extrinsic inputs whose samples are unique and '
            'decodable (shapes (N,), (N,1), (N,n) per-node columns; single, wildcard and sub-circuit targets; several '
            'inputs and edges converging on one variable), simulated by run() with euler / heun / scipy while every RHS '
            'evaluation is recorded, plus direct probes of the function from get_run_func at seeded times; distinct = '
            'distinct decision digest; non-trivial = the run completed, >= 3 evaluations were checked and at least '
            'one addressed unit received a non-zero extrinsic sample')
    components_real = ['pyrates frontend (_add_input, create_input_node), IR, default backend index/interp functions, '
                       'solver loops', 'numpy', 'scipy']
    components_stubbed = ['none; the RHS spy wraps the generated function through decorator=']
    assumptions = ['integrator-like library operators allow exact recovery of the summed input from (y, dy)',
                   'per-node columns follow get_nodes path order = declaration order']
    required_probes = {'thorough': ['cols', 'n1', 'broadcast', 'heun_corrector', 'adaptive_events', 'converge']}

    def strata(self, tier):
        # S-fortran: every run is an f2py build (~5 s): few runs, all with heun/euler and a time-varying input
        return [('S-fixed', 5), ('S-adaptive', 3), ('S-cols', 2), ('S-depth2', 1), ('S-probe', 2), ('S-torch', 1),
                ('S-jax', 1), ('S-fortran', 0.25), ('S-big', 1)]

    def prepare_parent(self):
        try:
            import torch  # noqa: once, in the parent
        except Exception:
            pass
        try:
            import jax  # noqa
        except Exception:
            pass

    def generate(self, rng, stratum, tier):
        depth = 2 if stratum == 'S-depth2' else rng.choice([0, 0, 1])
        libs = ('lin', 'integ', 'leak', 'osc', 'linl')
        if stratum == 'S-cols':
            libs = (rng.choice(libs),)
        if stratum == 'S-big':
            libs = rng.choice([libs, ('lin',), ('leak', 'lin')])
        # function-level probes of models with ring-buffer delays on some edges (fresh buffers: a delayed edge delivers nothing
        # yet), multi-operator nodes included: the extrinsic input still arrives where it is addressed
        with_delays = stratum == 'S-probe' and rng.random() < 0.3
        spec = models.gen_net(rng, n_nodes=rng.randint(2 if stratum == 'S-cols' else 1, 5) if stratum != 'S-big' else rng.randint(9, 15), libs=libs,
                              hier=depth >= 1, max_edges=4,
                              delays=(lambda r: {'delay': r.choice([0.25, 0.4, 0.7])} if r.random() < 0.6 else {}) if with_delays else None,
                              # multi-operator nodes: the operator that receives the input is read by a second operator
                              readouts=(0.4, 0.0, 0.5) if rng.random() < (0.7 if with_delays else 0.25) else None)
        if stratum == 'S-big' and rng.random() < 0.3:
            # more than twenty units of one kind, every unit fed by its two predecessors: a convergent projection sparse enough
            # (edges / (targets x sources) <= matrix_sparseness) for the compiler's index path
            spec = models.gen_big(rng, kind='converge', n=rng.randint(20, 26))
            depth = 0
        if depth >= 1 and not spec.get('circuits'):
            depth = 0
        if depth == 2:
            spec = wrap_level(spec)
        flat, _ = models.flatten(spec)
        net = models.RefNet(spec)
        nodes = list(flat)
        levels = len(nodes[0].split('/'))
        dt = rng.choice([1e-3, 0.01, 0.05, 0.1])
        steps = rng.randint(3, 40)
        solver = 'euler'
        kw = {}
        if stratum == 'S-adaptive' or (stratum == 'S-torch' and rng.random() < 0.6):
            solver = 'scipy'
            kw = {'method': rng.choice(['RK45', 'DOP853', 'RK23', 'LSODA']), 'rtol': 1e-5, 'atol': 1e-7}
        elif stratum in ('S-jax', 'S-fortran'):
            solver = rng.choice(['euler', 'heun'])
            # rows stored every m-th step: the step counter that selects the input sample must keep counting solver steps
            m_sub = rng.choice([1, 2, 5])
            steps = m_sub * rng.randint(2, 10)
            if stratum == 'S-fortran' and rng.random() < 0.35:
                # adaptive solver on the fortran backend: the generated interpolation helper is Fortran code of its own
                solver, m_sub = 'scipy', 1
                kw = {'method': rng.choice(['RK45', 'DOP853', 'RK23']), 'rtol': 1e-5, 'atol': 1e-7}
        elif rng.random() < 0.35 and stratum != 'S-torch':
            solver = 'heun'
        N = steps if (solver != 'scipy' or rng.random() < 0.5) else steps + rng.randint(1, 9)
        vec = (rng.random() < 0.5 or stratum in ('S-cols', 'S-big')) and stratum != 'S-fortran'
        inputs = []
        # every operator can be addressed; for a readout operator the addressed variable is the one it READS from its sibling
        # (the extrinsic input then ADDS to the sibling's contribution)
        reads_of = {o_['name']: o_.get('reads') for o_ in spec['ops'].values()}
        opnames = sorted({o for (_, o), i_ in net.inst.items() if models.LIB[i_['lib']]['in'] or reads_of.get(o)})
        for i in range(rng.randint(1, 3)):
            opn = rng.choice(opnames)
            lib = [x['lib'] for (n, o), x in net.inst.items() if o == opn][0]
            var = models.LIB[lib]['in'] or reads_of[opn]
            have = [n for n in nodes if (n, opn) in net.inst]
            kind = rng.choice(['1d', '1d', 'n1', 'bcast', 'sub'])
            if (stratum == 'S-cols' or (stratum == 'S-big' and rng.random() < 0.6)) and i == 0:
                kind = 'cols'
            if kind in ('1d', 'n1'):
                inputs.append({'id': i + 1, 'target': f'{rng.choice(have)}/{opn}/{var}', 'shape': kind, 'op': opn})
            elif kind == 'bcast':
                inputs.append({'id': i + 1, 'target': '/'.join(['all'] * levels) + f'/{opn}/{var}', 'shape': '1d', 'op': opn})
            elif kind == 'sub' and levels >= 2:
                pre = have[0].split('/')[:-1]
                inputs.append({'id': i + 1, 'target': '/'.join(pre + ['all']) + f'/{opn}/{var}', 'shape': '1d', 'op': opn})
            elif kind == 'cols':
                tg = have
                if len(tg) >= 2:
                    inputs.append({'id': i + 1, 'target': '/'.join(['all'] * levels) + f'/{opn}/{var}', 'shape': 'cols',
                                   'op': opn, 'ncols': len(tg)})
                else:
                    inputs.append({'id': i + 1, 'target': f'{have[0]}/{opn}/{var}', 'shape': '1d', 'op': opn})
        seen_t, uniq_in = set(), []
        for inp in inputs:        # run()/get_run_func take a dict: one array per target key
            if inp['target'] not in seen_t:
                seen_t.add(inp['target'])
                uniq_in.append(inp)
        inputs = uniq_in
        if not inputs:
            n0, o0 = next(iter(net.inst))
            inputs.append({'id': 1, 'target': f"{n0}/{o0}/{models.LIB[net.inst[(n0, o0)]['lib']]['in']}", 'shape': '1d', 'op': o0})
        if stratum == 'S-probe' and rng.random() < 0.35:
            # one-column-per-node input through get_run_func (its time grid comes from the array length, not from T)
            opn = rng.choice(opnames)
            have = [n for n in nodes if (n, opn) in net.inst]
            if len(have) >= 2:
                lib = [x['lib'] for (n, o), x in net.inst.items() if o == opn][0]
                inputs = [{'id': 1, 'target': '/'.join(['all'] * levels) + f"/{opn}/{models.LIB[lib]['in'] or reads_of[opn]}", 'shape': 'cols',
                           'op': opn, 'ncols': len(have)}]
                vec = True
        cfg = {'dt': dt, 'steps': steps, 'N': N, 'solver': solver, 'solver_kw': kw, 'vectorize': vec,
               'precision': 'float64', 'inputs': inputs, 'mode': 'probe' if stratum == 'S-probe' else 'run',
               'backend': {'S-torch': 'torch', 'S-jax': 'jax', 'S-fortran': 'fortran'}.get(stratum, 'default'),
               'm': m_sub if stratum in ('S-jax', 'S-fortran') else 1,
               'probe_times': [], 'adaptive_probe': False}
        if stratum == 'S-probe':
            cfg['adaptive_probe'] = rng.random() < 0.6 and not with_delays
            T = N * dt
            if cfg['adaptive_probe'] and len(inputs) > 1 and rng.random() < 0.5:
                # inputs of different lengths through get_run_func: each is laid out on its own time window (length * dt)
                for inp in inputs[1:]:
                    inp['N'] = N + rng.choice([7, 20, 3 * N])
            if cfg['adaptive_probe'] and rng.random() < 0.3:
                # history: the same arrays were compiled into the same model at another step size (another time window)
                # earlier in this process, and nothing was cleared
                cfg['prelude_dt_factor'] = rng.choice([0.25, 0.5, 4.0])
            cfg['probe_times'] = ([rng.uniform(0, T) for _ in range(12)] + [0.0, T, T * (N - 2) / (N - 1) if N > 2 else 0.0]
                                  if cfg['adaptive_probe'] else [rng.randint(0, N - 1) for _ in range(10)] + [0, N - 1])
        return {'spec': spec, 'cfg': cfg}

    # ---------------------------------------------------------------------------------------------------
    @staticmethod
    def expected_inputs(spec, cfg):
        """-> {(node, op): list over k of summed extrinsic sample}, {(node, op): [(input id, col)]}"""
        from checks.c07 import targets
        flat, _ = models.flatten(spec)
        net = models.RefNet(spec)
        nodes = list(flat)
        who = {}
        for inp in cfg['inputs']:
            *np_, opn, var = inp['target'].split('/')
            tg = [n for n in targets(nodes, spec, '/'.join(np_)) if (n, opn) in net.inst]
            for i, n in enumerate(tg):
                col = i if inp['shape'] == 'cols' else 0
                who.setdefault((n, opn), []).append((inp['id'], col))
        return who

    @staticmethod
    def arrays(cfg):
        import numpy as np
        out = {}
        for inp in cfg['inputs']:
            N = inp.get('N', cfg['N'])
            if inp['shape'] == 'cols':
                a = np.array([[sample(inp['id'], k, c) for c in range(inp['ncols'])] for k in range(N)])
            else:
                a = np.array([sample(inp['id'], k) for k in range(N)])
                if inp['shape'] == 'n1':
                    a = a[:, None]
            # several inputs may address the same key: PyRates takes a dict, so later ones with equal key would replace
            out.setdefault(inp['target'], []).append(a)
        return out

    def execute(self, trace):
        import numpy as np, warnings
        warnings.filterwarnings('ignore')
        from sim.spies import Recorder
        spec, cfg = trace['spec'], trace['cfg']
        res = {'violations': [], 'digest': digest([spec, cfg]), 'nontrivial': False, 'probes': {}, 'faults': {}, 'stats': {}}
        P = res['probes']

        def bump(k, n=1):
            P[k] = P.get(k, 0) + n

        def V(law, cls, key, detail):
            res['violations'].append({'law': law, 'cls': cls, 'key': key, 'detail': detail})
        net = models.RefNet(spec)
        names = net.state_names
        res_vec[0] = cfg['vectorize']
        arrs = self.arrays(cfg)
        if any(len(v) > 1 for v in arrs.values()):
            res['discard'] = 'two inputs with the same dict key'
            return res
        inputs = {k: v[0] for k, v in arrs.items()}
        who = self.expected_inputs(spec, cfg)
        for inp in cfg['inputs']:
            bump({'cols': 'cols', 'n1': 'n1'}.get(inp['shape'], 'broadcast' if 'all' in inp['target'] else 'single'))
        if any(len(v) > 1 for v in who.values()):
            bump('converge')
        dt, steps, N = cfg['dt'], cfg['steps'], cfg['N']
        T = steps * dt
        by_id = {inp['id']: inp for inp in cfg['inputs']}

        def extr(node_op, k=None, t=None):
            tot = 0.0
            for iid, col in who.get(node_op, []):
                if k is not None:
                    tot += sample(iid, k, col)
                else:
                    # (every input has its own grid: its own number of samples, one per step)
                    N_i = by_id[iid].get('N', N)
                    grid = np.linspace(0.0, N_i * dt if 'N' in by_id[iid] else T_grid, N_i)
                    tot += float(np.interp(t, grid, [sample(iid, j, col) for j in range(N_i)]))
            return tot
        c = models.build(spec)
        fixed = cfg['solver'] in ('euler', 'heun')
        per = 2 if cfg['solver'] == 'heun' else 1

        def decode_positions(y0):
            decl = net.y0()
            pos = {}
            y0 = np.asarray(y0).reshape(-1)
            for n in names:
                hits = [i for i, v in enumerate(y0) if v == decl[n]]
                if len(hits) != 1:
                    return None
                pos[n] = hits[0]
            return pos

        def judge(e, t, y, r, pos, k=None, tt=None, what=''):
            yn = {n: float(np.asarray(y).reshape(-1)[p]) for n, p in pos.items()}
            rn = {n: float(np.asarray(r).reshape(-1)[p]) for n, p in pos.items()}
            got = net.recover_inputs(yn, rn)
            for (node, opn), g in got.items():
                want = net.undelayed_input(yn, node, opn) + extr((node, opn), k=k, t=tt)
                if abs(g - want) > 1e-9 * max(1.0, abs(want), abs(g)) + 1e-9:
                    # diagnose: which sample would explain it?
                    hint = ''
                    if k is not None:
                        for kk in range(N):
                            w2 = net.undelayed_input(yn, node, opn) + extr((node, opn), k=kk)
                            if abs(g - w2) <= 1e-9 * max(1.0, abs(w2)):
                                hint = f' (matches sample {kk} instead of {k})'
                                break
                    V('L-sample' if k is not None else 'L-interp', 'silent', what or 'input',
                      f'evaluation {e} (t={t}): {node}/{opn} received {g!r}, expected {want!r}{hint}; '
                      f'extrinsic sources {who.get((node, opn))}')
                    return False
            return True

        if cfg['mode'] == 'probe':
            # function-level: call the function from get_run_func at chosen times
            adaptive = cfg['adaptive_probe']
            T_grid = N * dt
            if cfg.get('prelude_dt_factor'):
                try:
                    models.build(spec).get_run_func('vf_pre', dt * cfg['prelude_dt_factor'], inputs=dict(inputs),
                                                    vectorize=cfg['vectorize'], float_precision='float64', verbose=False,
                                                    solver='scipy', file_name='pre_fn')
                    bump('prelude_other_window')
                except Exception:
                    pass
            try:
                f, args, anames, smap = c.get_run_func('vf', dt, inputs=inputs, vectorize=cfg['vectorize'],
                                                       float_precision='float64', verbose=False,
                                                       solver='scipy' if adaptive else 'euler')
            except Exception as e:
                return self._refused(res, e, spec)
            pos = decode_positions(args[1])
            if pos is None:
                V('L-init', 'silent', 'initial-state', f'cannot locate the declared initial values in y0={np.asarray(args[1]).tolist()}')
                return res
            from sim.observe import call_fresh
            checked = 0
            for i, t in enumerate(cfg['probe_times']):
                y = np.array(args[1], copy=True) + 0.01 * i
                try:
                    r = call_fresh(f, args, anames, y, t=t)
                except Exception as e:
                    if i == 0:
                        return self._refused(res, e, spec)
                    V('L-probe', 'loud', type(e).__name__, f'f(t={t!r}, ...) raised {type(e).__name__}: {e}')
                    return res
                ok = judge(i, t, y, r, pos, k=None if adaptive else int(t), tt=t if adaptive else None,
                           what='probe-adaptive' if adaptive else 'probe-fixed')
                if not ok:
                    return res
                checked += 1
            res['nontrivial'] = checked >= 3
            res['stats'] = {'probe_evals': checked}
            return res

        T_grid = T
        rec = Recorder()
        outputs = {f'o{i}': n for i, n in enumerate(names)}
        if cfg.get('backend') in ('jax', 'fortran') and cfg['solver'] != 'scipy':
            # lax.scan traces the RHS once / the f2py routine is not a Python callable: no per-evaluation record.  The
            # returned iterates are compared with the reference iterates in which sample k drives BOTH stages of step k
            m_sub = cfg.get('m', 1)
            skw = {'sampling_step_size': m_sub * dt} if m_sub > 1 else {}
            try:
                R = c.run(T, dt, inputs=inputs, outputs=outputs, solver=cfg['solver'], vectorize=cfg['vectorize'],
                          float_precision='float64', verbose=False, backend=cfg['backend'], **skw)
            except Exception as e:
                res['discard'] = f'refused on {cfg["backend"]}: {type(e).__name__}: {str(e)[:60]}'
                return res

            def extra_at(k, traj, shift=0):
                kk = min(k + shift, N - 1)
                return {key: extr(key, k=kk) for key in who}
            stepper = models.ref_euler if cfg['solver'] == 'euler' else models.ref_heun
            traj = stepper(net, dt, steps, extra_at)
            for i, n in enumerate(names):
                g = np.asarray(R[f'o{i}'].values, dtype=float)
                if len(g) != steps // m_sub:
                    V('L-sample', 'silent', 'rows', f'{len(g)} rows returned for {steps} steps stored every {m_sub}')
                    return res
                for row in range(len(g)):
                    wv = traj[row * m_sub][n]
                    if abs(g[row] - wv) > 1e-9 * max(1.0, abs(wv)):
                        V('L-sample', 'silent', cfg['backend'] + '-' + cfg['solver'],
                          f'{n} row {row} (step {row * m_sub}): {cfg["backend"]} {cfg["solver"]} returned {g[row]!r}, reference with '
                          f'sample k held during step k (both stages) gives {wv!r}; extrinsic sources {who}')
                        return res
            res['nontrivial'] = bool(who) and steps >= 3
            res['probes'][cfg['backend']] = 1
            if m_sub > 1:
                res['probes']['subsampled'] = 1
            return res
        try:
            R = c.run(T, dt, inputs=inputs, outputs=outputs, solver=cfg['solver'], vectorize=cfg['vectorize'],
                      float_precision='float64', decorator=rec, verbose=False, backend=cfg.get('backend', 'default'),
                      **cfg['solver_kw'])
        except Exception as e:
            return self._refused(res, e, spec, rec)
        if rec.lossy_time():
            V('L-clock', 'silent', 'time-precision', f'float64 model: the time argument reached the generated function as '
                                                     f'{rec.lossy_time()} (solver={cfg["solver"]}, backend={cfg.get("backend")})')
            return res
        E = rec.events
        if not E:
            V('L-count', 'silent', 'no-events', 'no RHS evaluation recorded')
            return res
        if not all(np.all(np.isfinite(x[1])) and np.all(np.isfinite(x[2])) for x in E):
            res['discard'] = 'non-finite trajectory'
            return res
        pos = decode_positions(E[0][1])
        if pos is None:
            V('L-init', 'silent', 'initial-state', f'cannot locate the declared initial values in y0={np.asarray(E[0][1]).tolist()}')
            return res
        checked = 0
        for e, (t, y, r) in enumerate(E):
            if fixed:
                k = e // per
                if per == 2 and e % 2 == 1:
                    bump('heun_corrector')
                if not judge(e, t, y, r, pos, k=k, what='heun-corrector' if (per == 2 and e % 2) else cfg['solver']):
                    return res
            else:
                if not (0.0 <= t <= T):
                    continue
                bump('adaptive_events')
                if not judge(e, t, y, r, pos, tt=float(t), what='adaptive'):
                    return res
            checked += 1
        res['nontrivial'] = checked >= 3 and bool(who)
        res['stats'] = {'rhs_events': len(E), 'checked': checked}
        res['sim_time'] = T
        return res

    @staticmethod
    def _refused(res, e, spec, rec=None):
        import traceback
        tb = traceback.extract_tb(e.__traceback__)
        where = f'{tb[-1].filename.split("/")[-1]}:{tb[-1].name}'
        depth = len(next(iter(models.flatten(spec)[0])).split('/'))
        # is the refusal about the inputs at all?  compile the same model without inputs: if that fails too, the model
        # itself is refused (C01/C20 territory) and the run is discarded
        try:
            from pyrates import clear_frontend_caches
            clear_frontend_caches()
            c2 = models.build(copy.deepcopy(spec), fname='m_noinput')
            net = models.RefNet(spec)
            c2.run(3e-3, 1e-3, outputs={f'o{i}': n for i, n in enumerate(net.state_names)}, vectorize=res_vec[0],
                   float_precision='float64', verbose=False)
        except Exception as e2:
            res['discard'] = f'model refused without inputs too: {type(e2).__name__}'
            return res
        res['violations'].append({'law': 'L-run', 'cls': 'loud', 'key': type(e).__name__,
                                  'detail': f'raised {type(e).__name__}: {str(e)[:200]} at {where} (hierarchy levels '
                                            f'{depth}, evaluations so far {rec.calls if rec else 0})'})
        return res

    def shrink(self, trace):
        cfg = trace['cfg']
        if len(cfg['inputs']) > 1:
            for cand in drop_chunks(list(cfg['inputs']), min_len=1):
                yield with_key(trace, ['cfg', 'inputs'], cand)
        if cfg['steps'] > 3 and cfg['mode'] == 'run':
            t = copy.deepcopy(trace)
            t['cfg']['N'] -= t['cfg']['steps'] - 3
            t['cfg']['steps'] = 3
            yield t
        if cfg['vectorize'] and not any(i['shape'] == 'cols' for i in cfg['inputs']):
            yield with_key(trace, ['cfg', 'vectorize'], False)
        if trace['spec'].get('build') == 'yaml':
            yield with_key(trace, ['spec', 'build'], 'python')
        from checks.c03 import shrink_spec
        for t in shrink_spec({'spec': trace['spec'], 'cfg': {'input': None}}):
            t2 = copy.deepcopy(trace)
            t2['spec'] = t['spec']
            yield t2

    def known(self):
        def depth2(trace, v):
            flat, _ = models.flatten(trace['spec'])
            return len(next(iter(flat)).split('/')) >= 3 and v['law'] == 'L-run' and v['key'] == 'AttributeError'

        def ab_depth2(t):
            # remove one hierarchy level
            s = t['spec']
            if s.get('circuits') and len(s['circuits']) == 1:
                key, inner = next(iter(s['circuits'].items()))
                new = {'name': s['name'], 'build': s.get('build', 'python'), 'ops': s['ops'], 'nts': s['nts']}
                new.update({k: v for k, v in inner.items() if k != 'name'})
                t['spec'] = new
                for inp in t['cfg']['inputs']:
                    parts = inp['target'].split('/')
                    inp['target'] = '/'.join(parts[1:])
                return t
            return None
        return [KF('KF-C08-input-depth2', depth2, ab_depth2)]


CHECK = C08()
