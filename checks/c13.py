"""C13 — results do not depend on what the process did before.

K user workflows share one Python process; a seeded scheduler interleaves their API calls (and injected faults).
Oracle (refinement): every observation of workflow W in the shared process equals the observation at the same position
when W alone runs in a pristine forked process.  Plus L-keep: a function returned earlier keeps computing its own model.
"""
import copy, os, json
from sim.driver import Check, KF, digest
from sim import models
from sim.shrink import drop_chunks

OBS_OPS = ('compile', 'run', 'probe', 'grid')


def clear_pref_default(stratum):
    return {'S-clean': 1.0, 'S-fault': 1.0, 'S-noclear': 0.0}.get(stratum, 0.5)


def _kwsig(op):
    k = op.get('kw', {})
    return (op['op'], op.get('api', ''), bool(k.get('vectorize')), bool(k.get('in_place')), bool(k.get('clear')))


class C13(Check):
    pid = 'C13'
    timeout = 300.0
    quick_runs = 720
    thorough_budget_s = 1200
    rule = ('one run = 2-4 seeded user workflows (construct model by Python classes or YAML, optional update_var, '
            'get_run_func / get_jacobian_func / run with clear and in_place on or off, later probes of returned '
            'functions, clear, clear_frontend_caches) interleaved by a seeded scheduler in ONE process, with injected '
            'faults (failing models, settrace interruption, RHS exception, source-file I/O error, cache wipes by '
            'another workflow, stale generated files); every workflow is also executed alone in a pristine fork; '
            'distinct = distinct decision digest; non-trivial = at least two workflows reached an observation in the '
            'shared process and at least one observation happened after another workflow had touched shared state')
    components_real = ['pyrates (all of frontend/ir/backend, default backend)', 'numpy', 'sympy', 'networkx', 'pandas',
                       'ruamel.yaml']
    components_stubbed = ['none of PyRates; fault-injecting runs patch base_backend.open/os (OSError on k-th call) and use '
                          'sys.settrace to raise at the n-th internal call']
    assumptions = ['a template compiled with in_place=True is consumed (documented) and is not reused by the generator',
                   'a workflow interrupted or failed by an injected fault ends there; other workflows continue',
                   'observations compare by frontend name with rtol 1e-9 (float64) / 2e-5 (float32)']
    required_probes = {'thorough': ['operator_cache_nonempty_at_op_start', 'intr', 'io_src_write', 'rhs']}
    max_discard = 0.7

    def prepare_parent(self):
        try:
            import jax  # noqa: imported once in the parent; the XLA client is created lazily in the child
        except Exception:
            pass
        try:
            import torch  # noqa
        except Exception:
            pass

    def strata(self, tier):
        s = [('S-clean', 3), ('S-fault', 3), ('S-noclear', 3), ('S-opname', 3), ('S-shared', 3), ('S-file', 1),
             ('S-all', 2), ('S-reuse', 2), ('S-jax', 1), ('S-torch', 1), ('S-long-source', 0.25)]
        if tier == 'thorough':
            s.append(('S-fortran', 1))     # f2py builds: several models compiled to extension modules in one process
        return s

    # ---------------------------------------------------------------------------------------------------
    def gen_workflow(self, rng, wid, stratum, shared=None):
        uniq = f'_w{wid}'
        if stratum in ('S-opname', 'S-all') and rng.random() < 0.8:
            uniq = ''
        pool = None
        if shared is not None:
            spec = copy.deepcopy(shared)
            spec['name'] = f'c{wid}'
            # different node subset / edges over the same template objects
            keep = [n for n in spec['nodes'] if rng.random() < 0.7] or list(spec['nodes'])[:1]
            spec['nodes'] = {n: spec['nodes'][n] for n in keep}
            spec['edges'] = [e for e in spec['edges'] if e[0].split('/')[0] in keep and e[1].split('/')[0] in keep]
            pool = 'P'
            if wid == 2 and rng.random() < 0.6:
                # this workflow's operators are DERIVED (update_template: another name, one constant re-declared) from the very
                # operator objects the other workflow compiles: whatever a compilation leaves on the base must not be inherited
                newops = {}
                for k_, o_ in spec['ops'].items():
                    c0 = (models.LIB[o_['lib']]['const'] or [None])[0]
                    if c0 is None or o_.get('decl') or models.LIB[o_['lib']].get('array'):
                        newops[k_] = o_
                        continue
                    val = rng.randint(1, 40) / 16
                    d_ = copy.deepcopy(o_)
                    d_.update({'name': o_['name'] + '_d', 'derive_var': {c0: val},
                               'derived_from': {'key': k_, 'name': o_['name'], 'defaults': copy.deepcopy(o_['defaults'])}})
                    d_['defaults'][c0] = val
                    newops[k_ + '_d'] = d_
                ren = {k_: (k_ + '_d' if k_ + '_d' in newops else k_) for k_ in spec['ops']}
                spec['ops'] = newops
                nts = {}
                for kt, nt in spec['nts'].items():
                    nts[kt + '_d'] = {'name': nt['name'] + '_d', 'ops': [ren[o] for o in nt['ops']],
                                      'var': {ren[o]: v for o, v in nt.get('var', {}).items()}}
                spec['nts'] = nts
                spec['nodes'] = {n: kt + '_d' for n, kt in spec['nodes'].items()}
                _rename_edges(spec)
        else:
            libs = ('lin', 'sat', 'osc', 'leak', 'linl')
            tab = stratum in ('S-opname', 'S-all') and rng.random() < 0.35
            if tab:
                libs = ('tab', 'lin')   # operators carrying a large array constant (cache keys must see all of it)
            # a third of the models carry delayed edges; the delay values come from a small set so that different
            # workflows (compiled at different step sizes) meet the same delay value
            dl = (lambda r: {'delay': r.choice([0.004, 0.02, 0.1])} if r.random() < 0.5 else {}) \
                if rng.random() < 0.33 else None
            perm = stratum in ('S-opname', 'S-all') and not uniq and not tab and rng.random() < 0.2
            if perm:
                libs = ('osc',)
            spec = models.gen_net(rng, n_nodes=rng.randint(1, 4), uniq=uniq, max_edges=4, delays=dl,
                                  libs=libs, hier=rng.random() < 0.15, build='python' if tab else None)
            if perm:
                # one operator name, one set of equations and declarations - written in either order by different workflows
                for o in spec['ops'].values():
                    o['name'] = 'op'
                    o['eq_rev'] = rng.random() < 0.5
                _rename_edges(spec)
            if dl is None and rng.random() < 0.3:
                models.add_edge_templates(rng, spec, p=0.6, uniq=uniq)
            for o in spec['ops'].values():
                if o['lib'] == 'tab':
                    o['defaults']['wmid'] = float(rng.choice([1500, 3000, -1500, 750]))
            if stratum in ('S-opname', 'S-all') and not uniq and rng.random() < 0.5:
                # same operator NAME for different equations/defaults in different workflows
                for k, o in spec['ops'].items():
                    o['name'] = 'op'
                    break
                _rename_edges(spec)
            spec['name'] = f'c{wid}' if rng.random() < 0.7 else 'c'
        M = f'M{wid}'
        ops = [{'wf': wid, 'op': 'construct', 'obj': M, 'spec': spec, 'pool': pool, 'fname': f'm_w{wid}'}]
        if pool:
            spec['build'] = 'python'
        net = models.RefNet(spec)
        if rng.random() < 0.4 and net.inst:
            (node, opn), inst = rng.choice(list(net.inst.items()))
            var = rng.choice(models.LIB[inst['lib']]['const'] + models.LIB[inst['lib']]['state'])
            val = 0.0 if (var != 'tau' and rng.random() < 0.3) else rng.randint(1, 40) / 16    # exactly 0 is a legal override
            ops.append({'wf': wid, 'op': 'update_var', 'obj': M, 'node_vars': {f'{node}/{opn}/{var}': val}})
        top_edges = [e for e in spec.get('edges', []) if not e[2].get('et')]
        if top_edges and rng.random() < 0.3:
            e = rng.choice(top_edges)
            ops.append({'wf': wid, 'op': 'update_var', 'obj': M, 'node_vars': {},
                        'edge_vars': [[e[0], e[1], {'weight': rng.randint(-32, 32) / 16}]]})
        n_obs = rng.randint(1, 5 if getattr(self, '_tier', 'quick') == 'thorough' else 3)
        if stratum == 'S-fortran':
            n_obs = rng.randint(1, 2)
        if stratum not in ('S-fortran',) and not spec.get('circuits') and net.inst and rng.random() < 0.15:
            # a parameter sweep over a copy of the circuit (grid_search deep-copies the template it is given)
            (gnode, gop), ginst = rng.choice(list(net.inst.items()))
            gvar = rng.choice(models.LIB[ginst['lib']]['const'] or models.LIB[ginst['lib']]['state'])
            if gvar not in ('wmid',):
                dtg = rng.choice([1e-3, 0.01])
                ops.append({'wf': wid, 'op': 'grid', 'obj': M, 'node': gnode, 'opn': gop, 'var': gvar,
                            'vals': [rng.randint(1, 40) / 16, rng.randint(1, 40) / 16], 'dt': dtg, 'T': rng.randint(3, 8) * dtg,
                            'out': f"{gnode}/{gop}/{models.LIB[ginst['lib']]['out']}",
                            'kw': {'vectorize': rng.random() < 0.6, 'float_precision': 'float64',
                                   'clear': rng.random() < clear_pref_default(stratum)}})
        consumed = False
        reusable = False
        late_probes = []     # functions returned earlier are evaluated again at the end of the workflow
        clear_pref = {'S-reuse': 1.0, 'S-clean': 1.0, 'S-fault': 1.0, 'S-noclear': 0.0}.get(stratum, 0.5)
        for j in range(n_obs):
            if consumed:
                # a consumed template is rebuilt; a YAML build goes to a fresh file name because from_yaml caches
                # templates by path (documented) and would hand back the consumed object
                reuse = reusable and stratum in ('S-reuse', 'S-all', 'S-clean') and rng.random() < (0.8 if stratum == 'S-reuse' else 0.3)
                ops.append({'wf': wid, 'op': 'construct', 'obj': M, 'spec': spec, 'pool': pool,
                            'fname': f'm_w{wid}_{j}'})
                if reuse:
                    # REUSE: the user keeps working with the instance that was compiled in place and cleared.  The shared
                    # process skips the rebuild (ops flagged ref_only), the pristine reference performs it: what the
                    # instance went through before must not show in what it compiles to now
                    ops[-1]['ref_only'] = True      # (the reference also replays the workflow's update_var ops, see _expand_ref)
                consumed = False
            kind = rng.choice(['compile', 'compile', 'run', 'jac'])
            kw = {'vectorize': rng.random() < 0.6, 'in_place': rng.random() < 0.5,
                  'clear': rng.random() < clear_pref,
                  'float_precision': 'float64' if rng.random() < 0.85 else 'float32'}
            if stratum == 'S-jax':
                # process-global backend settings (jax's x64 switch, jit caches): functions returned earlier keep their
                # own precision when models of another precision are compiled later
                kind = 'compile'
                kw.update({'backend': 'jax', 'float_precision': rng.choice(['float64', 'float32']), 'in_place': False})
            if stratum == 'S-torch':
                kind = 'run'
                kw.update({'backend': 'torch', 'in_place': rng.random() < 0.5})
            if stratum == 'S-fortran':
                kind = 'run'          # the f2py routine is observed through run(); its call signature is backend-specific
                kw.update({'vectorize': False, 'float_precision': 'float64', 'backend': 'fortran',
                           'clear': rng.random() < 0.7})
            if stratum in ('S-file', 'S-all') and rng.random() < 0.7:
                # same file name in the same directory, or the same base name in different directories
                kw['file_name'] = rng.choice(['shared_fn', 'shared_fn', f'dir{wid}/model', f'dir{wid % 2}/model'])
            elif rng.random() < 0.3:
                kw['file_name'] = f'wf{wid}'
            if kind == 'run':
                dt = rng.choice([1e-3, 0.01, 0.05])
                kw.update({'T': rng.randint(3, 12) * dt, 'dt': dt,
                           'solver': 'euler' if stratum == 'S-fortran' else rng.choice(['euler', 'euler', 'heun']),
                           'outputs': {f'o{i}': n for i, n in enumerate(net.state_names)}})
                ops.append({'wf': wid, 'op': 'run', 'obj': M, 'kw': kw})
                if any(o['lib'] == 'sat' for o in spec['ops'].values()) and rng.random() < (0.5 if stratum == 'S-torch' else 0.12):
                    ops[-1]['custom_ops'] = True      # this run brings its own definition of tanh (keyword `ops`)
                if spec.get('build') == 'yaml' and stratum != 'S-fortran' and rng.random() < 0.35 \
                        and not any(o['op'] == 'update_var' for o in ops) and ops[-2]['op'] == 'construct':
                    # pyrates.integrate(<template path>, ...): the FILE is simulated (whether the path cache still holds the
                    # template or another workflow's clear dropped it) - only used while object and file say the same: right
                    # after the build (a template that went through an in_place=False compile carries KF-C14's bookkeeping)
                    ops[-1]['via'] = 'integrate'
            else:
                api = 'get_jacobian_func' if kind == 'jac' else 'get_run_func'
                if kind == 'jac':
                    kw['vectorize'] = False
                h = f'F{wid}_{j}'
                kw['step_size'] = rng.choice([1e-3, 1e-3, 2e-3, 0.01])
                ops.append({'wf': wid, 'op': 'compile', 'obj': M, 'api': api, 'kw': kw, 'handle': h,
                            'func_name': rng.choice(['vf', 'vf', f'f{wid}'])})
                if kind != 'jac' and rng.random() < 0.2:
                    ops[-1]['decorator'] = rng.choice(['neg', 'half', 'id'])    # user decorator around the generated RHS
                if rng.random() < 0.6:
                    ops.append({'wf': wid, 'op': 'probe', 'handle': h})
            if stratum != 'S-fortran' and rng.random() < (0.45 if stratum == 'S-noclear' else 0.25) and net.inst:
                # an extrinsic input (generated input nodes/operators get process-wide unique labels)
                (inode, iop), iinst = rng.choice(list(net.inst.items()))
                n_in = 12 if kind == 'run' else 8
                if kind == 'run':
                    n_in = int(round(kw['T'] / kw['dt']))
                tgt_op = ops[-1 if ops[-1]['op'] != 'probe' else -2]
                tgt_op.setdefault('input', {
                    'target': f"{inode}/{iop}/{models.LIB[iinst['lib']]['in']}", 'n': n_in, 'amp': rng.choice([0.5, 1.0, -0.25])})
                if kind == 'run' and rng.random() < 0.5 and 'backend' not in kw:
                    # adaptive solver: the input comes with an interpolation grid of its own (length and end time of THIS run);
                    # different workflows often attach the SAME array (12 samples, amplitude 1) over different time spans
                    tgt_op['kw']['solver'] = 'scipy'
                    tgt_op['input']['n'] = rng.choice([n_in, 12, 12, 12])
                    if tgt_op['input']['n'] == 12:
                        tgt_op['input']['amp'] = 1.0
            if kind == 'compile' and rng.random() < (0.9 if stratum == 'S-jax' else 0.3):
                late_probes.append({'wf': wid, 'op': 'probe', 'handle': h})
            consumed = kw['in_place']
            if any(o.get('via') == 'integrate' for o in ops[-2:]):
                # integrate() ran on whatever the path cache held (the workflow's object, or a fresh load after another
                # workflow's cache wipe): the workflow's own object is not used any further, the next observation rebuilds
                consumed = True
            # an instance compiled in place by get_run_func and cleared is used again by many scripts (e.g. the same model
            # first vectorized, then for the fortran backend); after a run() it carries the end state by design
            reusable = consumed and kind == 'compile' and kw['clear'] and 'input' not in ops[-1 if ops[-1]['op'] != 'probe' else -2]
            if not kw['clear'] and rng.random() < (0.3 if stratum != 'S-noclear' else 0.05) and kw['in_place']:
                ops.append({'wf': wid, 'op': 'clear', 'obj': M})
        return ops + late_probes

    def gen_fault_workflow(self, rng, wid):
        kind = rng.choice(['badop', 'badop', 'intr', 'intr', 'rhs', 'io', 'io', 'wipe'])
        M = f'M{wid}'
        if kind == 'wipe':
            return [{'wf': wid, 'op': 'wipe'} for _ in range(rng.randint(1, 2))], kind
        spec = models.gen_net(rng, n_nodes=rng.randint(1, 3), uniq=f'_w{wid}', libs=('lin', 'sat', 'leak'), max_edges=3)
        net = models.RefNet(spec)
        kw = {'vectorize': rng.random() < 0.6, 'in_place': True, 'clear': rng.random() < 0.7,
              'float_precision': 'float64'}
        if kind == 'badop':
            bad = rng.choice(['undecl', '2out', 'missing-node'])
            if bad == 'missing-node':
                n0 = next(iter(net.inst))
                src = f"{n0[0]}/{n0[1]}/{models.LIB[net.inst[n0]['lib']]['out']}"
                spec['edges'].append([src, f"ghost/{n0[1]}/u", {'weight': 1.0}])
            else:
                k0 = next(iter(spec['ops']))
                spec['ops'][k0]['lib'] = 'bad_undecl' if bad == 'undecl' else 'bad_2out'
                for nt in spec['nts'].values():
                    if k0 in nt.get('var', {}):
                        nt['var'][k0] = {}
                spec['edges'] = []
            spec['build'] = 'python'
            ops = [{'wf': wid, 'op': 'construct', 'obj': M, 'spec': spec, 'fname': f'm_w{wid}'},
                   {'wf': wid, 'op': 'compile', 'obj': M, 'kw': kw, 'handle': f'F{wid}'}]
            return ops, kind
        ops = [{'wf': wid, 'op': 'construct', 'obj': M, 'spec': spec, 'fname': f'm_w{wid}'}]
        if kind == 'intr':
            ops.append({'wf': wid, 'op': 'compile', 'obj': M, 'kw': kw, 'handle': f'F{wid}',
                        'fault': {'kind': 'intr', 'at_call': rng.randint(1, 1400)}})
        elif kind == 'io':
            tgt = rng.choice(['src_write', 'src_write', 'remove'])
            if tgt == 'remove':
                kw['clear'] = True
            ops.append({'wf': wid, 'op': 'compile', 'obj': M, 'kw': kw, 'handle': f'F{wid}',
                        'fault': {'kind': 'io', 'target': tgt, 'nth': 1, 'errno': rng.choice(['ENOSPC', 'EACCES', 'EIO']),
                                  'short': rng.random() < 0.4}})
        elif kind == 'rhs':
            dt = 0.01
            kw.update({'T': 10 * dt, 'dt': dt, 'solver': 'euler',
                       'outputs': {f'o{i}': n for i, n in enumerate(net.state_names)}})
            ops.append({'wf': wid, 'op': 'run', 'obj': M, 'kw': kw, 'fault': {'kind': 'rhs', 'at_eval': rng.randint(0, 9)}})
        return ops, kind

    def generate(self, rng, stratum, tier):
        if stratum == 'S-long-source':
            # sizes toy models never reach: generated sources of more than 8 kB (150-200 single-operator nodes, not vectorized);
            # the second model equals the first except for the formula of its LAST node (same variables, same argument list)
            n = rng.randint(150, 200)
            a = models.gen_net(rng, n_nodes=n, libs=('lin',), max_edges=rng.randint(0, 6), uniq='', build='python')
            a['name'] = 'c1'
            b = copy.deepcopy(a)
            b['name'] = 'c2'
            last = list(b['nodes'])[-1]
            ntk = b['nodes'][last]
            b['ops']['linm'] = {'lib': 'linm', 'name': 'lin', 'defaults': dict(b['ops']['lin']['defaults'])}
            b['nts'][ntk] = {'name': b['nts'][ntk]['name'], 'ops': ['linm'], 'var': {'linm': b['nts'][ntk]['var']['lin']}}
            kw = {'vectorize': False, 'in_place': True, 'clear': True, 'float_precision': 'float64', 'step_size': 1e-3}
            ops = []
            for wid, sp in ((1, a), (2, b)):
                ops += [{'wf': wid, 'op': 'construct', 'obj': f'M{wid}', 'spec': sp, 'pool': None, 'fname': f'm_w{wid}'},
                        {'wf': wid, 'op': 'compile', 'obj': f'M{wid}', 'api': 'get_run_func', 'kw': dict(kw), 'handle': f'F{wid}_0',
                         'func_name': 'vf'},
                        {'wf': wid, 'op': 'probe', 'handle': f'F{wid}_0'}]
            if rng.random() < 0.5:
                ops = ops[3:] + ops[:3]
            return {'ops': ops, 'stale': None, 'fault_kinds': []}
        K = rng.randint(2, 6 if tier == 'thorough' else 4)     # deeper histories in the thorough tier
        if stratum == 'S-fortran':
            K = rng.randint(2, 3)       # every observation is an f2py build (in the history and in the reference)
        flows = []
        self._tier = tier
        shared = None
        if stratum in ('S-shared',) or (stratum == 'S-all' and rng.random() < 0.4):
            if rng.random() < 0.5:
                shared = models.gen_net(rng, n_nodes=rng.randint(2, 4), uniq='', max_edges=4, build='python',
                                        libs=('lin', 'sat', 'leak'))
            else:
                # node templates with and without overrides over the same operator objects: whatever a compilation caches
                # about an operator (e.g. its defaults) must not depend on which node applied it first
                shared = models.gen_aliased(rng, hier=False, build='python')
        for w in range(K):
            flows.append(self.gen_workflow(rng, w + 1, stratum, shared if (shared and w < 2) else None))
        fault_kinds = []
        if stratum in ('S-fault', 'S-all'):
            for f in range(rng.randint(1, 2)):
                ops, kind = self.gen_fault_workflow(rng, 10 + f)
                cands = [(fi, oi) for fi, fl in enumerate(flows[:K]) for oi, o in enumerate(fl)
                         if o['op'] == 'compile' and o.get('api', 'get_run_func') == 'get_run_func']
                if cands and rng.random() < 0.4:
                    # TWIN: the failing user compiles exactly what another workflow compiles (same model, same options -> same
                    # generated source), and is interrupted / hit by an I/O error while doing so
                    fi, oi = rng.choice(cands)
                    wid = 10 + f
                    pre = [o for o in flows[fi][:oi] if o['op'] in ('construct', 'update_var')]
                    last_c = max(i for i, o in enumerate(pre) if o['op'] == 'construct')
                    ops = []
                    for o in pre[last_c:] + [flows[fi][oi]]:
                        o = copy.deepcopy(o)
                        o['wf'] = wid
                        o['obj'] = f'M{wid}'
                        if o['op'] == 'construct':
                            o['fname'] = f'm_w{wid}'
                        if o['op'] == 'compile':
                            o['handle'] = f'F{wid}'
                            o.pop('input', None)
                            fk = rng.choice(['genmodule', 'genmodule', 'intr', 'io'])
                            if fk == 'io':
                                o['fault'] = {'kind': 'io', 'target': 'src_write', 'nth': 1, 'errno': rng.choice(['ENOSPC', 'EIO']),
                                              'short': rng.random() < 0.5}
                            else:
                                o['fault'] = {'kind': 'intr', 'at_call': rng.randint(1, 1400), 'genmodule': fk == 'genmodule'}
                        ops.append(o)
                    kind = 'twin'
                rcands = [(fi, oi) for fi, fl in enumerate(flows[:K]) for oi, o in enumerate(fl)
                          if o['op'] == 'run' and not o.get('fault') and not o.get('input')]
                if kind != 'twin' and rcands and rng.random() < 0.5:
                    # TWIN RUN: the failing user runs exactly what another workflow runs (same model, same options -> same
                    # generated source) through a decorator whose wrapped function fails at evaluation k; whatever that
                    # leaves behind must not reach the healthy run
                    fi, oi = rng.choice(rcands)
                    wid = 10 + f
                    pre = [o for o in flows[fi][:oi] if o['op'] in ('construct', 'update_var')]
                    last_c = max(i for i, o in enumerate(pre) if o['op'] == 'construct')
                    ops = []
                    for o in pre[last_c:] + [flows[fi][oi]]:
                        o = copy.deepcopy(o)
                        o['wf'] = wid
                        o['obj'] = f'M{wid}'
                        if o['op'] == 'construct':
                            o['fname'] = f'm_w{wid}'
                        if o['op'] == 'run':
                            o['fault'] = {'kind': 'rhs', 'at_eval': rng.randint(0, 3)}
                        ops.append(o)
                    kind = 'twin'
                ycands = [(fi, oi) for fi, fl in enumerate(flows[:K]) for oi, o in enumerate(fl)
                          if o['op'] == 'construct' and o['spec'].get('build') == 'yaml']
                if kind != 'twin' and ycands and rng.random() < 0.5:
                    # TWIN LOAD: the failing user loads the very YAML path another workflow loads, and the load fails half-way
                    # (read error at the k-th file open, or an interruption): the other workflow's load must be unaffected
                    fi, oi = rng.choice(ycands)
                    o = copy.deepcopy(flows[fi][oi])
                    o['wf'] = 10 + f
                    o['obj'] = f'M{10 + f}'
                    o['fault'] = ({'kind': 'yaml_read', 'nth': rng.choice([1, 1, 2, 3, 4])} if rng.random() < 0.7
                                  else {'kind': 'intr', 'at_call': rng.randint(1, 150)})
                    ops = [o]
                    kind = 'twin_load'
                flows.append(ops)
                fault_kinds.append(kind)
        # seeded scheduler: random merge of the workflows' op lists
        idx = [0] * len(flows)
        ops = []
        while True:
            live = [i for i in range(len(flows)) if idx[i] < len(flows[i])]
            if not live:
                break
            i = rng.choice(live)
            # run a short burst of the chosen workflow (keeps some locality, still interleaves)
            for _ in range(rng.choice([1, 1, 2, 3])):
                if idx[i] < len(flows[i]):
                    ops.append(flows[i][idx[i]])
                    idx[i] += 1
        stale = None
        if stratum in ('S-file', 'S-all', 'S-fault') and rng.random() < 0.4:
            stale = {'name': rng.choice(['pyrates_func.py', 'shared_fn.py', 'pyrates_run.py']),
                     'text': rng.choice(['def vf(t,y,dy):\n\treturn 0*y\n', 'garbage(((\n', ''])}
        return {'ops': ops, 'stale': stale, 'fault_kinds': fault_kinds}

    # ---------------------------------------------------------------------------------------------------
    @staticmethod
    def _run_ops(ops, honour_reuse=False):
        """executes ops in the current process; returns (observations, world).  With honour_reuse (the shared process) a
        rebuild flagged ref_only - and the update_var ops replayed after it - is SKIPPED when the last compile of that
        object succeeded: the user keeps working with the instance; everywhere else it is executed"""
        import warnings
        warnings.filterwarnings('ignore')
        from sim.world import World
        w = World()
        obs, last_ok, skipping = [], {}, set()
        for op in ops:
            key = (op['wf'], op.get('obj'))
            if honour_reuse and op.get('ref_only'):
                if op['op'] == 'construct':
                    if last_ok.get(key):
                        skipping.add(key)
                        w.bump(w.probes, 'reuse_after_in_place')
                    else:
                        skipping.discard(key)
                if key in skipping:
                    obs.append(None)
                    continue
            elif key in skipping:
                skipping.discard(key)
            o = w.do(op)
            obs.append(o)
            if op['op'] in ('compile', 'run'):
                last_ok[key] = o.get('status') == 'ok'
        return obs, w

    @staticmethod
    def _expand(ops):
        """a ref_only rebuild is followed by the update_var ops its workflow has issued on that object since the last real
        build (flagged ref_only as well)"""
        out, upd, built = [], {}, set()
        for o in ops:
            key = (o['wf'], o.get('obj'))
            out.append(o)
            if o['op'] == 'construct':
                if o.get('ref_only'):
                    for u in upd.get(key, []):
                        u = copy.deepcopy(u)
                        u['ref_only'] = True
                        out.append(u)
                else:
                    built.add(key)
                    upd[key] = []
            elif o['op'] == 'update_var' and key in built:
                upd.setdefault(key, []).append(o)
        return out

    @staticmethod
    def _ref_entry(ops):
        obs, w = C13._run_ops(ops)
        return obs

    def execute(self, trace):
        from sim.pool import fork_call
        from sim import observe
        ops = copy.deepcopy(trace['ops'])
        last, built_ = {}, set()
        for op in ops:
            # a reuse is only meaningful right after an in-place compile that was cleared (a shrunk trace may have lost it:
            # then the rebuild is a real one)
            key = (op['wf'], op.get('obj'))
            if op['op'] == 'construct' and op.get('ref_only'):
                lo = last.get(key)
                if not (lo and key in built_ and lo['op'] == 'compile' and lo['kw'].get('in_place') and lo['kw'].get('clear')
                        and not lo.get('input') and not lo.get('fault')):
                    del op['ref_only']
            if op['op'] == 'construct' and not op.get('ref_only'):
                built_.add(key)
            if op['op'] in ('construct', 'compile', 'run', 'grid', 'clear'):
                last[key] = op
        ops = C13._expand(ops)
        wids = []
        for op in ops:
            if op['wf'] not in wids:
                wids.append(op['wf'])
        res = {'violations': [], 'digest': digest(trace['ops']), 'nontrivial': False, 'probes': {}, 'faults': {},
               'faults_cfg': {k: 1 for k in trace.get('fault_kinds', [])}, 'stats': {}}
        # 1. references: every workflow alone, in a pristine fork of this still-pristine process, clean directory
        refs = {}
        base = os.getcwd()
        for w in wids:
            sub = [op for op in ops if op['wf'] == w]
            if not any(o['op'] in OBS_OPS for o in sub):
                continue
            st, payload = fork_call(C13._ref_entry, sub, os.path.join(base, f'_ref{w}'), timeout=60)
            if st != 'ok':
                raise RuntimeError(f'reference process for workflow {w} failed: {st} {payload}')
            refs[w] = payload
        # 2. the shared process (this one)
        if trace.get('stale'):
            with open(trace['stale']['name'], 'w') as f:
                f.write(trace['stale']['text'])
            res['faults']['stale'] = 1
        obs, world = C13._run_ops(ops, honour_reuse=True)
        res['faults'].update(world.fired)
        res['probes'].update(world.probes)
        res['states'] = sorted(set(world.states))
        res['schedule'] = ''.join(str(op['wf']) + ',' for op in ops)
        res['bigrams'] = [(_kwsig(a), _kwsig(b)) for a, b in zip(ops, ops[1:])]
        # 3. compare, workflow by workflow, position by position
        pos = {w: 0 for w in wids}
        reached = set()
        touched_by_other = False
        last_wf = None
        seen_wfs = set()
        for op, o in zip(ops, obs):
            w = op['wf']
            k = pos[w]
            pos[w] += 1
            if seen_wfs - {w}:
                touched_by_other = True
            seen_wfs.add(w)
            if w not in refs:
                continue
            r = refs[w][k]
            if o is None:
                continue      # a rebuild the shared process skipped (reuse)
            if op['op'] in OBS_OPS and o.get('status') == 'ok':
                reached.add(w)
            if op.get('fault') or r.get('status') == 'interrupted' or o.get('status') == 'interrupted':
                # the faulted call itself: both executions were hit by the same injected fault (or it fired only where
                # call counts differ); its own outcome is not compared
                continue
            prec = op.get('kw', {}).get('float_precision', 'float64')
            rtol = 1e-9 if prec == 'float64' else 2e-5
            d = observe.diff(o, r, rtol=rtol, atol=1e-12 if prec == 'float64' else 1e-6)
            if d:
                loud = (o.get('status') != r.get('status'))
                res['violations'].append({
                    'law': 'L-pristine', 'cls': 'loud-divergence' if loud else 'silent-divergence',
                    'key': op['op'] + ('/' + op.get('api', '') if op['op'] == 'compile' else ''),
                    'detail': f'workflow {w} op #{k} ({op["op"]} {json.dumps(op.get("kw", {}))[:150]}): shared process '
                              f'differs from pristine process at {d}'
                              + (f'; shared: {o.get("exc")}: {o.get("msg")}' if o.get('status') == 'raised' else '')
                              + (f'; pristine: {r.get("exc")}: {r.get("msg")}' if r.get('status') == 'raised' else '')})
                break
            if op['op'] == 'probe' and o.get('status') == 'ok' and not o.get('keep'):
                res['violations'].append({'law': 'L-keep', 'cls': 'silent-divergence', 'key': 'probe',
                                          'detail': f'workflow {w} op #{k}: function {op["handle"]} no longer returns '
                                                    f'what it returned when it was created'})
                break
        res['nontrivial'] = len(reached) >= 2 and touched_by_other
        res['stats'] = {'ops': len(ops), 'workflows': len(wids), 'observations': sum(1 for o in ops if o['op'] in OBS_OPS)}
        if not reached:
            res['discard'] = 'no workflow reached an observation'
        return res

    # ---------------------------------------------------------------------------------------------------
    def shrink(self, trace):
        ops = trace['ops']
        wids = sorted({o['wf'] for o in ops})
        # (a) whole workflows
        for w in wids:
            t = copy.deepcopy(trace)
            t['ops'] = [o for o in ops if o['wf'] != w]
            if t['ops']:
                yield t
        # (b) ops
        for cand in drop_chunks(list(ops), min_len=1):
            t = copy.deepcopy(trace)
            t['ops'] = cand
            yield t
        # (c) faults / stale file
        if trace.get('stale'):
            t = copy.deepcopy(trace)
            t['stale'] = None
            yield t
        for i, o in enumerate(ops):
            if o.get('fault'):
                t = copy.deepcopy(trace)
                del t['ops'][i]['fault']
                yield t
        # (d) simplify ops: kw
        for i, o in enumerate(ops):
            kw = o.get('kw') or {}
            for key, simple in (('float_precision', 'float64'), ('file_name', None), ('vectorize', False)):
                if key in kw and kw[key] != simple:
                    t = copy.deepcopy(trace)
                    if simple is None:
                        del t['ops'][i]['kw'][key]
                    else:
                        t['ops'][i]['kw'][key] = simple
                    yield t
        # (e) simplify model specs
        for i, o in enumerate(ops):
            if o['op'] == 'construct':
                spec = o['spec']
                if spec.get('build') == 'yaml':
                    t = copy.deepcopy(trace)
                    t['ops'][i]['spec']['build'] = 'python'
                    yield t
                for j in range(len(spec.get('edges', []))):
                    t = copy.deepcopy(trace)
                    del t['ops'][i]['spec']['edges'][j]
                    yield t


def _rename_edges(spec):
    """re-derive edge endpoints after operator names changed (edge = node/opname/var)"""
    names = {}
    for ntk, nt in spec['nts'].items():
        names[ntk] = spec['ops'][nt['ops'][0]]

    def fix(s, prefix_nodes):
        for e in s.get('edges', []):
            for j in (0, 1):
                *node, opn, var = e[j].split('/')
                ntk = prefix_nodes.get('/'.join(node))
                if ntk:
                    e[j] = '/'.join(node + [names[ntk]['name'], var])
    flat, _ = models.flatten(spec)
    if spec.get('circuits'):
        for cn, sub in spec['circuits'].items():
            fix(sub, {n: k for n, k in sub['nodes'].items()})
        fix(spec, flat)
    else:
        fix(spec, spec['nodes'])


def _name_collision(trace):
    """two construct ops of different workflows declare operators with the same name but different content"""
    seen = {}
    for o in trace['ops']:
        if o['op'] != 'construct':
            continue
        for k, op_ in o['spec']['ops'].items():
            content = (op_['lib'], json.dumps(op_.get('defaults', {}), sort_keys=True))
            prev = seen.setdefault(op_['name'], (o['wf'], content))
            if prev[0] != o['wf'] and prev[1] != content:
                return True
    return False


CHECK = C13()
