"""C14 — read-only and copy-making operations leave a template unchanged.

One workflow owns template T (flat or hierarchical, shared operator/node objects, per-node overrides) and a sibling S
built from the same template objects.  A seeded history of operations documented as non-mutating runs on T; after
EVERY op (1) the structural fingerprint of T and S equals the one taken at construction, (2) a pristine observer
process, fed a pickled snapshot of T, compiles it and must observe the same model as at construction, (3) a repeated
in_place=False run/compile returns what it returned the first time.  Faults: OSError / torn write inside to_yaml.
"""
import copy, json, os
from sim.driver import Check, KF, digest
from sim import models
from sim.shrink import drop_chunks


class C14(Check):
    pid = 'C14'
    timeout = 120.0
    quick_runs = 400
    thorough_budget_s = 900
    rule = ('one run = one template with aliasing (shared OperatorTemplate / NodeTemplate objects, per-node overrides, '
            'flat or two-level, Python- or YAML-built) plus a sibling built from the same objects, and a seeded history '
            'of 1-7 operations from {run, get_run_func, get_jacobian_func with in_place=False; get_nodes, get_edges, '
            'get_edge, collect_edges, get_node_template, __getitem__, to_yaml (with and without injected I/O fault), '
            'deepcopy, update_template(in_place=False)}; distinct = distinct decision digest; non-trivial = at least 2 '
            'ops executed, at least one of them a compile/run/to_yaml/edge getter, and the pristine observer compiled '
            'the template successfully at construction')
    components_real = ['pyrates frontend templates, dict/yaml dump, IR, default backend', 'ruamel.yaml', 'pickle/copy']
    components_stubbed = ['none of PyRates; pathlib.Path.open is patched to fail on the k-th write in fault runs']
    assumptions = ['_state_var_values/_state_var_indices are documented run bookkeeping (.state) and are excluded from '
                   'the behavioural snapshot; the initial state returned by get_run_func after a run is not compared',
                   'fork() before the history yields a pristine observer']
    required_probes = {'thorough': ['yaml_io', 'op_to_yaml', 'op_collect_edges', 'hierarchical']}

    def strata(self, tier):
        return [('S-getters', 2), ('S-compile', 3), ('S-yaml', 2), ('S-hier-edges', 2), ('S-fault', 1), ('S-mixed', 2)]

    def generate(self, rng, stratum, tier):
        hier = True if stratum == 'S-hier-edges' else (rng.random() < 0.35)
        spec = models.gen_aliased(rng, hier=hier, build=rng.choice(['python', 'python', 'yaml']), readouts=0.4 if rng.random() < 0.35 else 0.0)
        if rng.random() < (0.9 if stratum == 'S-hier-edges' else 0.5):
            # coupling operators on edges, explicitly wired inputs (string attributes that get rescoped per level)
            models.add_edge_templates(rng, spec, p=0.9 if stratum == 'S-hier-edges' else 0.6)
        if spec.get('circuits') and rng.random() < (0.6 if stratum == 'S-hier-edges' else 0.35):
            from checks.c08 import wrap_level
            spec = wrap_level(spec, name='top', key='g')       # three hierarchy levels
        flat_nodes, flat_edges = models.flatten(spec)
        net = models.RefNet(spec)
        sibling = None
        if spec['build'] == 'python' and rng.random() < 0.6:
            sibling = copy.deepcopy(spec)
            sibling['name'] = 'sib'
            if sibling.get('circuits'):
                sibling['circuits'].pop(rng.choice(list(sibling['circuits'])))
                sibling['edges'] = []
            else:
                keep = list(sibling['nodes'])[:max(1, len(sibling['nodes']) - 1)]
                sibling['nodes'] = {k: sibling['nodes'][k] for k in keep}
                sibling['edges'] = [e for e in sibling['edges'] if e[0].split('/')[0] in keep and e[1].split('/')[0] in keep]
        kinds = {
            'S-getters': ['get_nodes', 'get_edges', 'get_edge', 'collect_edges', 'get_node_template', 'getitem', 'deepcopy',
                          'update_template', 'derive_op', 'derive_op'],
            'S-compile': ['compile', 'compile', 'run', 'run', 'jac', 'get_nodes'],
            'S-yaml': ['to_yaml', 'to_yaml', 'compile', 'run', 'deepcopy'],
            'S-hier-edges': ['get_edges', 'collect_edges', 'collect_edges_d', 'compile', 'run', 'get_edge'],
            'S-fault': ['to_yaml_fault', 'to_yaml', 'run', 'compile'],
            'S-mixed': ['compile', 'run', 'jac', 'get_nodes', 'get_edges', 'get_edge', 'collect_edges', 'collect_edges_d',
                        'get_node_template', 'getitem', 'to_yaml', 'deepcopy', 'update_template', 'derive_op'],
        }[stratum]
        ops = []
        nodes = list(flat_nodes)
        depth = len(nodes[0].split('/'))
        run_kw = None
        for j in range(rng.randint(1, 12 if tier == 'thorough' else 7)):
            k = rng.choice(kinds)
            if k in ('compile', 'jac'):
                kw = {'in_place': False, 'vectorize': rng.random() < 0.5 if k == 'compile' else False,
                      'clear': rng.random() < 0.5, 'float_precision': 'float64'}
                ops.append({'op': 'compile', 'obj': 'T', 'api': 'get_jacobian_func' if k == 'jac' else 'get_run_func',
                            'kw': kw})
                if k == 'compile' and rng.random() < 0.3:
                    # an extrinsic input: attaching it must happen on the copy that is compiled, not on the template
                    (inode, iop), iinst = rng.choice(sorted((k_, i_) for k_, i_ in net.inst.items() if models.LIB[i_['lib']]['in']))
                    kw['step_size'] = 1e-3
                    ops[-1]['input'] = {'target': f"{inode}/{iop}/{models.LIB[iinst['lib']]['in']}", 'n': 8,
                                        'amp': rng.choice([0.5, 1.0, -0.25])}
            elif k == 'run':
                if run_kw is None or rng.random() < 0.4:
                    dt = rng.choice([1e-3, 0.01])
                    run_kw = {'in_place': False, 'vectorize': rng.random() < 0.5, 'clear': rng.random() < 0.7,
                              'float_precision': 'float64', 'T': rng.randint(3, 8) * dt, 'dt': dt,
                              'solver': rng.choice(['euler', 'heun']),
                              'outputs': {f'o{i}': n for i, n in enumerate(net.state_names)}}
                ops.append({'op': 'run', 'obj': 'T', 'kw': copy.deepcopy(run_kw)})
                if rng.random() < 0.3:
                    (inode, iop), iinst = rng.choice(sorted((k_, i_) for k_, i_ in net.inst.items() if models.LIB[i_['lib']]['in']))
                    ops[-1]['input'] = {'target': f"{inode}/{iop}/{models.LIB[iinst['lib']]['in']}",
                                        'n': int(round(run_kw['T'] / run_kw['dt'])), 'amp': rng.choice([0.5, 1.0, -0.25])}
                if sibling is not None and rng.random() < 0.5:
                    # the same kind of call on the sibling that shares T's template objects: its repeated results must
                    # not depend on what was done to T in between (and vice versa)
                    snet = models.RefNet(sibling)
                    skw = copy.deepcopy(run_kw)
                    skw['outputs'] = {f'o{i}': n for i, n in enumerate(snet.state_names)}
                    skw['clear'] = False
                    ops.append({'op': 'run', 'obj': 'S', 'kw': skw})
            elif k == 'get_nodes':
                ops.append({'op': 'getter', 'obj': 'T', 'which': 'get_nodes', 'args': [['all'] * depth]})
            elif k == 'get_edges':
                if rng.random() < 0.5 or not flat_edges:
                    ops.append({'op': 'getter', 'obj': 'T', 'which': 'get_edges', 'args': ['all', 'all']})
                else:
                    e = rng.choice(flat_edges)
                    ops.append({'op': 'getter', 'obj': 'T', 'which': 'get_edges', 'args': [e[0], e[1]]})
            elif k == 'get_edge':
                top = spec.get('edges') or []
                if top:
                    e = rng.choice(top)
                    ops.append({'op': 'getter', 'obj': 'T', 'which': 'get_edge', 'args': [e[0], e[1]]})
            elif k in ('collect_edges', 'collect_edges_d'):
                ops.append({'op': 'getter', 'obj': 'T', 'which': 'collect_edges', 'args': [k.endswith('_d')]})
            elif k == 'get_node_template':
                ops.append({'op': 'getter', 'obj': 'T', 'which': 'get_node_template', 'args': [rng.choice(nodes)]})
            elif k == 'getitem':
                key = rng.choice(list(spec.get('circuits') or spec['nodes']))
                ops.append({'op': 'getitem', 'obj': 'T', 'key': key})
            elif k == 'derive_op':
                # what loading a template derived via `base:` does to its base: add-only, replace, remove edits, with and
                # without a variables update
                kind = rng.choice(['add', 'add', 'replace', 'remove', 'add+replace'])
                node = rng.choice(nodes)
                lib = net.inst[[key for key in net.inst if key[0] == node][0]]['lib']
                c0 = (models.LIB[lib]['const'] or ['x'])[0]
                edits, variables = {}, None
                if 'add' in kind:
                    edits['add'] = ["zq' = -zq"]
                    variables = {'zq': 'variable(0.1)'}
                if 'replace' in kind:
                    edits['replace'] = {c0: f'({c0}*1.5)'}
                if kind == 'remove':
                    # a whole additive term goes: the variables that only occurred in it drop out of the derived operator
                    edits['remove'] = [{'lin': '+ u', 'leak': '+ b*u', 'sat': '+ b'}.get(lib, '+ u')]
                if variables is not None and rng.random() < 0.5 and kind != 'add':
                    variables = None
                if rng.random() < 0.4:
                    # the derived operator re-declares one of the base's variables (plain value, declaration string or -
                    # the form the base may use itself - a definition dict)
                    variables = dict(variables or {})
                    variables[c0] = rng.choice([7.5, {'vtype': 'constant', 'value': 7.5, 'dtype': 'float', 'shape': [1]},
                                                {'vtype': 'constant', 'value': 7.5, 'dtype': 'float', 'shape': [1]}])
                ops.append({'op': 'derive_operator', 'obj': 'T', 'node': node, 'edits': edits, 'variables': variables})
            elif k == 'deepcopy':
                ops.append({'op': 'deepcopy', 'obj': 'T', 'as': f'D{j}'})
            elif k == 'update_template':
                ops.append({'op': 'update_template', 'obj': 'T', 'as': f'U{j}', 'name': f'upd{j}',
                            'edges': [[e[0], e[1], {'weight': 0.5}] for e in (spec.get('edges') or [])[:1]] or None})
            elif k in ('to_yaml', 'to_yaml_fault'):
                op = {'op': 'to_yaml', 'obj': 'T', 'path': f'dump{j}/{spec["name"]}'}
                if k == 'to_yaml_fault':
                    op['fault'] = {'kind': 'yaml_io', 'nth': 1, 'errno': rng.choice(['ENOSPC', 'EIO', 'EACCES']),
                                   'short': rng.random() < 0.5}
                ops.append(op)
        if not ops:
            ops.append({'op': 'getter', 'obj': 'T', 'which': 'get_nodes', 'args': [['all'] * depth]})
        if stratum in ('S-fault', 'S-mixed'):
            # interruption (stand-in for Ctrl-C) at an arbitrary internal call of a read-only / copy-making operation: the
            # interrupted call is lost, the template it was reading must be exactly as before
            for o in ops:
                if not o.get('fault') and o['op'] in ('compile', 'run', 'to_yaml', 'getter', 'update_template', 'deepcopy') \
                        and o.get('obj', 'T') == 'T' and rng.random() < (0.35 if stratum == 'S-fault' else 0.12):
                    o['fault'] = {'kind': 'intr', 'at_call': rng.randint(1, 900 if o['op'] in ('compile', 'run') else 60)}
        trace = {'spec': spec, 'sibling': sibling, 'ops': ops}
        # epilogue (a third of the hierarchical runs): after the history, ONE legitimate in-place edit of an edge weight made
        # through the object of the circuit that owns the edge; a template that was only read / copied before must follow it
        # exactly like a freshly built twin that was never touched
        owners = []

        def walk(s_, path):
            for i, e in enumerate(s_.get('edges', [])):
                if not e[2].get('et'):
                    owners.append((path, i))
            for k_, sub in (s_.get('circuits') or {}).items():
                walk(sub, path + [k_])
        walk(spec, [])
        owners = [o_ for o_ in owners if o_[0]]          # edges owned by a sub-circuit
        if owners and not spec.get('twin_sub') and rng.random() < 0.5:
            path, i = rng.choice(owners)
            trace['epilogue'] = {'path': path, 'edge': i, 'weight': rng.choice([0.8125, -1.1875, 2.3125, -0.4375])}
        return trace

    # ---------------------------------------------------------------------------------------------------
    def execute(self, trace):
        import warnings
        warnings.filterwarnings('ignore')
        from sim.observer import Observer, snapshot
        from sim.world import World
        from sim import fingerprint as FP, observe
        spec, ops = trace['spec'], trace['ops']
        res = {'violations': [], 'digest': digest([spec, trace.get('sibling'), ops]), 'nontrivial': False,
               'probes': {}, 'faults': {}, 'faults_cfg': {}, 'stats': {'ops': len(ops)}}
        obsv = Observer(os.path.join(os.getcwd(), '_observer'))   # forked while this process is still pristine
        w = World()
        o = w.do({'op': 'construct', 'obj': 'T', 'spec': spec, 'pool': 'P', 'fname': 'm_T'})
        if o['status'] != 'ok':
            obsv.abort()
            res['discard'] = f"construction failed: {o.get('exc')}: {o.get('msg')}"
            return res
        T = w.objs['T']
        S = None
        if trace.get('sibling'):
            o = w.do({'op': 'construct', 'obj': 'S', 'spec': trace['sibling'], 'pool': 'P', 'fname': 'm_S'})
            S = w.objs.get('S')
        fp0 = FP.fp_circuit(T)
        fps0 = FP.fp_circuit(S) if S is not None else None
        blob0 = snapshot(T)
        obsv.submit(blob0, 'obs_both')
        if spec.get('circuits'):
            res['probes']['hierarchical'] = 1
        first = {}
        viol = res['violations']
        executed = []
        for k, op in enumerate(ops):
            out = w.do(op)
            executed.append((op, out))
            name = op.get('which') or op.get('api') or op['op']
            res['probes']['op_' + name] = res['probes'].get('op_' + name, 0) + 1
            if op.get('fault'):
                res['faults_cfg'][op['fault']['kind']] = res['faults_cfg'].get(op['fault']['kind'], 0) + 1
            # (1) structure
            d = FP.first_diff(fp0, FP.fp_circuit(T))
            if d:
                viol.append({'law': 'L-struct', 'cls': 'silent', 'key': name,
                             'detail': f'after op #{k} {name}({json.dumps(op.get("args", op.get("kw", "")))[:120]}) the '
                                       f'template differs from construction at {d[:400]}'})
                break
            if S is not None:
                d = FP.first_diff(fps0, FP.fp_circuit(S))
                if d:
                    viol.append({'law': 'L-struct-sibling', 'cls': 'silent', 'key': name,
                                 'detail': f'after op #{k} {name} on T the sibling sharing its template objects differs at {d[:400]}'})
                    break
            # (3) repeat law for in_place=False compile / run
            if op['op'] in ('compile', 'run') and out.get('status') != 'interrupted':
                key = json.dumps([op.get('obj', 'T'), op['op'], op.get('api'), op['kw'], op.get('input')], sort_keys=True)
                cmp_ = dict(out)
                if op['op'] == 'compile' and cmp_.get('status') == 'ok':
                    cmp_.pop('y0', None); cmp_.pop('vf', None)
                if key in first:
                    d = observe.diff(cmp_, first[key])
                    if d:
                        loud = cmp_.get('status') == 'raised' or first[key].get('status') == 'raised'
                        viol.append({'law': 'L-repeat', 'cls': 'loud' if loud else 'silent', 'key': op['op'],
                                     'detail': f'op #{k}: repeating {op["op"]}({json.dumps(op["kw"])[:160]}) on the same '
                                               f'template gave a different result: {d[:300]}'
                                               + (f' [now: {out.get("exc")}: {out.get("msg")}]' if out.get('status') == 'raised' else '')
                                               + (f' [first time: {first[key].get("exc")}: {first[key].get("msg")}]'
                                                  if first[key].get('status') == 'raised' else '')})
                        break
                else:
                    first[key] = cmp_
            # (2) behaviour, judged by the pristine observer after the history
            obsv.submit(snapshot(T), 'obs_both')
        ep_jobs = None
        ep = trace.get('epilogue')
        if ep and not viol:
            try:
                def owner(top, sp):
                    c_, s_ = top, sp
                    for k_ in ep['path']:
                        c_, s_ = c_.circuits[k_], s_['circuits'][k_]
                    return c_, s_['edges'][ep['edge']]
                T2 = models.build(copy.deepcopy(spec), fname='m_T2')          # built afresh, never read or copied
                for top in (T, T2):
                    c_, e_ = owner(top, spec)
                    c_.update_var(edge_vars=[(e_[0], e_[1], {'weight': ep['weight']})])
                b1_, b2_ = snapshot(T), snapshot(T2)
                ep_jobs = len(obsv.jobs)
                obsv.submit(b1_, 'obs_both')
                obsv.submit(b2_, 'obs_both')
                res['probes']['epilogue_edit'] = 1
            except Exception as e:
                res['probes']['epilogue_refused'] = 1
                ep_jobs = None
        res['faults'].update(w.fired)
        res['states'] = sorted(set(w.states))
        # L-usable candidates: a compile/run that raised after other ops.  The SAME call is repeated by the pristine
        # observer on the snapshot taken at construction; only if it succeeds there is the failure a consequence of the
        # history (otherwise the call is refused on a fresh template too, which is not C14's business)
        cands = []
        seen_any = False
        for k, (op, out) in enumerate(executed):
            if op['op'] in ('compile', 'run') and out.get('status') == 'raised' and seen_any and op.get('obj', 'T') == 'T':
                cands.append((k, op, out))
            seen_any = True
        n_snap = len(obsv.jobs) if ep_jobs is None else ep_jobs
        for k, op, out in cands[:2]:
            obsv.submit(blob0, 'obs_op', op=op)
        allres = obsv.collect()
        ep_res = []
        if ep_jobs is not None:
            ep_res = allres[ep_jobs:ep_jobs + 2]
            allres = allres[:ep_jobs] + allres[ep_jobs + 2:]
        snaps, usable = allres[:n_snap], allres[n_snap:]
        if not viol and len(ep_res) == 2 and ep_res[1].get('scalar', {}).get('status') == 'ok':
            d = observe.diff(ep_res[0], ep_res[1], rtol=1e-12, atol=0.0)
            if d:
                viol.append({'law': 'L-tracks', 'cls': 'silent', 'key': 'edit-after-reads',
                             'detail': f'after the history of read-only / copy-making operations an edge weight of sub-circuit '
                                       f'{"/".join(ep["path"])} was set to {ep["weight"]} through that circuit\'s object: the template '
                                       f'compiles to a different model than a freshly built twin given the same edit: {d[:300]}'})
        if not viol:
            base = snaps[0]
            for k, s_ in enumerate(snaps[1:]):
                d = observe.diff(s_, base, rtol=1e-12, atol=0.0)
                if d:
                    op = ops[k]
                    name = op.get('which') or op.get('api') or op['op']
                    viol.append({'law': 'L-behave', 'cls': 'silent', 'key': name,
                                 'detail': f'after op #{k} {name} the template compiles to a different model (pristine '
                                           f'observer): {d[:400]}'})
                    break
        if not viol:
            for (k, op, out), pr in zip(cands[:2], usable):
                if pr.get('status') == 'ok':
                    viol.append({'law': 'L-usable', 'cls': 'loud', 'key': op['op'],
                                 'detail': f'op #{k} {op["op"]}({json.dumps(op["kw"])[:160]}) raised {out.get("exc")}: '
                                           f'{out.get("msg")} although the same call succeeds on the freshly constructed '
                                           f'template in a pristine process; earlier ops: '
                                           f'{[o["op"] + ":" + str(o.get("which") or o.get("api") or "") for o, _ in executed[:k]]}'})
                    break
        heavy = any(o['op'] in ('compile', 'run', 'to_yaml') or o.get('which') in ('get_edges', 'collect_edges') for o in ops)
        res['nontrivial'] = len(ops) >= 2 and heavy and snaps[0].get('scalar', {}).get('status') == 'ok'
        return res

    # ---------------------------------------------------------------------------------------------------
    def shrink(self, trace):
        for cand in drop_chunks(list(trace['ops']), min_len=1):
            t = copy.deepcopy(trace)
            t['ops'] = cand
            yield t
        if trace.get('sibling'):
            t = copy.deepcopy(trace)
            t['sibling'] = None
            yield t
        for i, o in enumerate(trace['ops']):
            if o.get('fault'):
                t = copy.deepcopy(trace)
                del t['ops'][i]['fault']
                yield t
        spec = trace['spec']
        if spec.get('build') == 'yaml':
            t = copy.deepcopy(trace)
            t['spec']['build'] = 'python'
            yield t

        def levels(s, path):
            yield s, path
            for k, sub in (s.get('circuits') or {}).items():
                yield from levels(sub, path + ['circuits', k])
        for s, path in levels(spec, ['spec']):
            for i in range(len(s.get('edges', []))):
                t = copy.deepcopy(trace)
                d = t
                for k in path:
                    d = d[k]
                del d['edges'][i]
                yield t


    def known(self):
        PAT = ('arange() argument after *', 'cannot reshape array', 'KeyError', 'getitem_from_iterator', 'IndexError')

        def stale_bookkeeping(trace, v):
            if v.get('cls') != 'loud' or v.get('law') not in ('L-usable', 'L-repeat'):
                return False
            if not any(p in v.get('detail', '') for p in PAT):
                return False
            heavy = [o for o in trace['ops'] if o['op'] in ('compile', 'run')]
            return len(heavy) >= 2

        def ablate(t):
            # trigger removed: the failing call is the first compile/run on the template (drop every earlier one)
            idx = [i for i, o in enumerate(t['ops']) if o['op'] in ('compile', 'run')]
            if len(idx) < 2:
                return None
            # keep only the last compile/run of the minimal failing prefix: drop all earlier compile/run ops
            drop = set(idx[:-1])
            t['ops'] = [o for i, o in enumerate(t['ops']) if i not in drop]
            return t
        return [KF('KF-C14-stale-run-bookkeeping', stale_bookkeeping, ablate)]


CHECK = C14()
