"""C09 — discrete edge delays shift the source by round(delay/dt) steps.

With a discrete delay the generated function is stateful (ring buffers rolled in place on every evaluation), so the
property is one about the evaluation HISTORY.  The recorded RHS-call history of run(solver='euler'|'heun') and of
harness-owned stepping of the function from get_run_func is checked against the delay-line recurrence over the
RECORDED trajectory: at step k every unit received sum_e w_e * y_src(e)[k - n_e], n_e = round(d_e/dt), 0 before start.
"""
import copy, json
from sim.driver import Check, KF, digest
from sim import models
from sim.shrink import with_key


def gen_pop(rng, multi):
    pool = list(range(-60, 61))
    rng.shuffle(pool)

    def pop(n):
        return {'n': n, 'a': [rng.randint(4, 48) / 16 for _ in range(n)], 'x0': [pool.pop() / 64 for _ in range(n)]}
    pops = {'pa': pop(rng.randint(1, 4)), 'pb': pop(rng.randint(1, 3))}
    if multi and rng.random() < 0.6:
        pops['pc'] = pop(rng.randint(1, 3))      # a third population: one source can have three and more delayed targets
    names = list(pops)
    conns = []
    used_src = set()
    pairs = [(s, t) for s in names for t in names]
    rng.shuffle(pairs)
    for s, t in pairs:
        if rng.random() < (0.6 if len(names) == 2 else 0.45):
            ns, nt = pops[s]['n'], pops[t]['n']
            if rng.random() < 0.3:
                W = rng.randint(-32, 32) / 32 or 0.5
            else:
                W = [[(rng.randint(-32, 32) / 32) if rng.random() < 0.75 else 0.0 for _ in range(ns)] for _ in range(nt)]
                if not any(any(r) for r in W):
                    W[0][0] = 0.5
            d = rng.choice([None, rng.randint(2, 9), rng.randint(2, 9)] if multi else [None, rng.randint(2, 9)])
            if not multi and d is not None and s in used_src:
                d = None        # at most one delayed connection per source population in the single stratum
            if d is not None:
                used_src.add(s)
            conns.append({'s': s, 't': t, 'W': W, 'dsteps': d, 'eps': rng.uniform(-0.4, 0.4)})
            if isinstance(W, list) and rng.random() < 0.3:
                # a coupling FUNCTION on the connection (Connectivity(edge=EdgeTemplate, edge_var_map=...)): evaluated over
                # the (target, source) pair space on the - possibly delayed - source; connections share the coupling
                # operator object and differ in its override
                conns[-1]['coup'] = {'kind': rng.choice(['tanh', 'diff']), 'kk': 1.0}
    if not conns:
        conns.append({'s': 'pa', 't': 'pb', 'W': 0.5, 'dsteps': 3, 'eps': 0.1})
    return {'kind': 'pop', 'pops': pops, 'conns': conns}


def build_pop(spec, dt, share=None):
    """share: a dict that keeps the population / connectivity objects - a second call with the same dict builds another
    circuit from the SAME objects"""
    import numpy as np
    from pyrates import CircuitTemplate, NodeTemplate, OperatorTemplate
    from pyrates.frontend.template.population import PopulationTemplate, Connectivity
    # (g is a constant that no population parametrises: it keeps the operator's value 1.0 for every unit)
    op = OperatorTemplate(name='lin', equations=["x' = -a*x + g*u"], variables={'x': 'output(0.0)', 'a': 1.0, 'g': 1.0, 'u': 'input(0.0)'})
    nd = NodeTemplate(name='n', operators=[op])
    pops = {k: PopulationTemplate(name=k, node=nd, n=p['n'], params={'lin/a': list(p['a']), 'lin/x': list(p['x0'])})
            for k, p in spec['pops'].items()}
    conns = []
    from pyrates import EdgeTemplate
    # (non-dynamic coupling functions carry no constants: the implementation refuses them loudly)
    cops = {'tanh': OperatorTemplate(name='cop_t', equations=["m = tanh(s_pre)"],
                                     variables={'m': 'output', 's_pre': 'input'}),
            'diff': OperatorTemplate(name='cop_d', equations=["m = s_pre - s_post"],
                                     variables={'m': 'output', 's_pre': 'input', 's_post': 'input'})}
    for j, c in enumerate(spec['conns']):
        W = c['W'] if not isinstance(c['W'], list) else np.array(c['W'])
        d = (c['dsteps'] + c['eps']) * dt if c.get('dsteps') else c.get('delay')
        if c.get('int_delay'):
            d = int(c['int_delay'])
        ekw = {}
        if c.get('coup'):
            k_ = c['coup']['kind']
            ekw['edge'] = EdgeTemplate(name=f'cpl{j}', operators=[cops[k_]])
            ekw['edge_var_map'] = {'s_pre': 'source'} if k_ == 'tanh' else {'s_pre': 'source', 's_post': f"{c['t']}/lin/x"}
        conns.append(Connectivity(f"{c['s']}/lin/x", f"{c['t']}/lin/u", W, delays=d, spread=c.get('spread'), **ekw))
    if share is not None:
        if 'pops' in share:
            pops, conns = share['pops'], share['conns']
        else:
            share['pops'], share['conns'] = pops, conns
    return CircuitTemplate(name='c', populations=pops, connections=conns)


class C09(Check):
    pid = 'C09'
    timeout = 90.0
    quick_runs = 1400
    thorough_budget_s = 900
    rule = ('one run = one seeded circuit with a mixture of delayed (delay = (n+eps)*dt, n in 2..12) and undelayed edges '
            '(several delays per source, several edges per target; scalar nodes or Population/Connectivity with matrix '
            'and scalar weights), simulated by run() or by harness-owned Euler stepping of the function from '
            'get_run_func, every RHS evaluation recorded; distinct = distinct decision digest; non-trivial = the run '
            'completed, at least one delayed edge became active (k >= n_e) and >= 10 evaluations were checked')
    components_real = ['pyrates ir/circuit.py (_add_edge_buffer, _add_matrix_delay), code generation, roll/index '
                       'helpers, _solve_euler/_solve_heun', 'numpy']
    components_stubbed = ['none']
    assumptions = ['library operators allow exact recovery of the summed input', 'n_e = int(np.round(d_e/dt))']
    required_probes = {'thorough': ['delayed_active', 'two_delays_one_source', 'mixed_same_source', 'pop', 'own_stepping']}

    def strata(self, tier):
        return [('S-alldelayed', 4), ('S-mixed', 3), ('S-heun', 1), ('S-conn-single', 2), ('S-conn-multi', 1),
                ('S-step', 2), ('S-hub', 1), ('S-matrix', 1), ('S-fortran', 0.25), ('S-big', 1), ('S-long', 0.5), ('S-conn-big', 0.25)]      # a few f2py builds per quick run

    def generate(self, rng, stratum, tier):
        dt = rng.choice([1e-3, 0.01, 0.05])
        m_sub = rng.choice([1, 1, 1, 2, 5])       # rows stored every m-th step (run mode): delay lines still advance per step
        steps = m_sub * rng.randint(max(3, 15 // m_sub), 60 // m_sub)
        cfg = {'dt': dt, 'steps': steps, 'm': m_sub, 'solver': 'heun' if stratum == 'S-heun' else 'euler',
               'vectorize': rng.random() < 0.5, 'mode': 'step' if stratum == 'S-step' else 'run',
               'sparseness': rng.choice([None, None, 0.0, 1.0]),
               # history: the same (or another) delayed model was compiled earlier in this process at another step size
               # and never cleared; in step mode its function is stepped interleaved with the model under test (the two
               # must not share ring buffers, delay tables or step counts)
               'prelude': ({'dt_factor': rng.choice([0.5, 2.0, 4.0]), 'interleave': [rng.random() < 0.5 for _ in range(60)]}
                           if rng.random() < 0.35 else None)}
        if stratum == 'S-conn-big':
            # sizes toy populations never reach: a source population of 450-560 units with a ring-buffer delay of ~600 steps
            # (more than 2^18 buffered values) onto a small target population
            ns, nt_ = rng.randint(450, 560), rng.randint(1, 3)
            vals = list(range(-1500, 1501))
            rng.shuffle(vals)
            pops = {'pa': {'n': ns, 'a': [rng.randint(4, 48) / 16 for _ in range(ns)], 'x0': [vals.pop() / 1024 for _ in range(ns)]},
                    'pb': {'n': nt_, 'a': [rng.randint(4, 48) / 16 for _ in range(nt_)], 'x0': [vals.pop() / 1024 for _ in range(nt_)]}}
            W = [[(rng.randint(-32, 32) / 512) if rng.random() < 0.5 else 0.0 for _ in range(ns)] for _ in range(nt_)]
            W[0][0] = 0.0625
            d = rng.randint(560, 640)
            cfg.update({'vectorize': True, 'prelude': None, 'mode': 'run', 'solver': 'euler', 'm': 1, 'steps': d + rng.randint(30, 80),
                        'sparseness': None})
            return {'spec': {'kind': 'pop', 'pops': pops, 'conns': [{'s': 'pa', 't': 'pb', 'W': W, 'dsteps': d, 'eps': rng.uniform(-0.4, 0.4)}]},
                    'cfg': cfg}
        if stratum.startswith('S-conn'):
            cfg['vectorize'] = True
            if cfg['prelude'] and rng.random() < 0.5:
                # another circuit made of the same population / connectivity objects was compiled before
                cfg['prelude']['same_object'] = True
            spec = gen_pop(rng, multi=stratum == 'S-conn-multi')
            delayed = [c_ for c_ in spec['conns'] if c_.get('dsteps')]
            if delayed and rng.random() < 0.15:
                # a delay of exactly one time unit typed as an int (delays=1) at a step size well below 1
                cfg['dt'] = rng.choice([0.5, 0.25, 0.125, 0.1])
                c_ = rng.choice(delayed)
                c_.update({'int_delay': 1, 'dsteps': int(round(1 / cfg['dt'])), 'eps': 0.0})
            return {'spec': spec, 'cfg': cfg}
        p_delay = 1.0 if stratum in ('S-alldelayed',) else 0.55

        def delays(r):
            if r.random() < p_delay:
                n = r.randint(2, 12)      # (delays that round to fewer than two steps are deliberately neglected by the
                #                            implementation and excluded by the property's quantifier)
                return {'delay': (n + r.uniform(-0.45, 0.45)) * dt, 'dsteps': n}
            return {}
        spec = models.gen_net(rng, n_nodes=rng.randint(2, 5), libs=('lin', 'leak', 'integ', 'osc', 'linl'), max_edges=6,
                              delays=delays, hier=rng.random() < 0.2,
                              # multi-operator nodes: the delayed source variable is also read by a second operator of its node
                              readouts=(0.5, 0.0, 0.5) if rng.random() < 0.3 else None)
        if stratum == 'S-long':
            # delays of more than 512 steps (and runs longer than them) on small models
            def very_long(r):
                if r.random() < 0.7:
                    n = r.choice([r.randint(515, 640), r.randint(2, 12)])
                    return {'delay': (n + r.uniform(-0.45, 0.45)) * dt, 'dsteps': n}
                return {}
            spec = models.gen_net(rng, n_nodes=rng.randint(2, 4), libs=('lin', 'leak', 'integ'), max_edges=4, delays=very_long)
            if not any(e[2].get('dsteps', 0) > 512 for e in spec['edges']) and spec['edges']:
                n = rng.randint(515, 640)
                spec['edges'][0][2].update({'delay': (n + rng.uniform(-0.45, 0.45)) * dt, 'dsteps': n})
            cfg['m'] = 1
            cfg['steps'] = rng.randint(660, 760)
            cfg['prelude'] = None
            cfg['mode'] = 'run'
        if stratum == 'S-big':
            # sizes that toy models never reach: 9-15 nodes, dozens of edges, delays of up to 70 steps, runs longer than them
            def long_delays(r):
                if r.random() < 0.6:
                    n = r.choice([r.randint(2, 12), r.randint(40, 70)])
                    return {'delay': (n + r.uniform(-0.45, 0.45)) * dt, 'dsteps': n}
                return {}
            spec = models.gen_net(rng, n_nodes=rng.randint(9, 15), libs=rng.choice([('lin', 'leak', 'integ', 'osc', 'linl'), ('lin',)]),
                                  max_edges=rng.randint(15, 40), delays=long_delays)
            cfg['steps'] = cfg['m'] * rng.randint(80 // cfg['m'] + 1, 140 // cfg['m'] + 1)
            cfg['prelude'] = None
        if stratum in ('S-alldelayed', 'S-mixed') and rng.random() < 0.12:
            # feature interaction: complex-valued state variables on delayed edges (ring buffers must carry complex values)
            spec = models.gen_net(rng, n_nodes=rng.randint(2, 5), libs=('cz',), max_edges=6, delays=delays, build='python')
            cfg['precision'] = 'complex128'
            cfg['prelude'] = None
        if stratum in ('S-alldelayed', 'S-mixed', 'S-hub') and rng.random() < 0.25:
            # feature interaction: an extrinsic input into a circuit with ring-buffer delays (run mode, one sample per step)
            cfg['input'] = {'amp': rng.choice([0.5, 1.0, -0.25]), 'pick': rng.random()}
            cfg['mode'] = 'run'
        if stratum == 'S-fortran':
            cfg.update({'backend': 'fortran', 'vectorize': False, 'mode': 'run', 'solver': 'euler', 'prelude': None,
                        'sparseness': None})
            cfg['steps'] = min(cfg['steps'], 30)
        if stratum in ('S-alldelayed', 'S-mixed') and not spec.get('circuits') and 'precision' not in cfg and rng.random() < 0.25:
            # feature interaction: coupling operators (EdgeTemplates) on DELAYED edges - the edge delivers what its operator
            # computed from the values of round(d/dt) steps ago, and nothing before that
            models.add_edge_templates(rng, spec, p=0.6, delayed=True)
        if stratum in ('S-alldelayed', 'S-mixed') and not spec.get('circuits') and rng.random() < 0.15:
            # the delay of one edge reaches the compiler through the documented `edge_values` keyword (the template's edge
            # dictionary carries only the weight)
            pairs = [(e[0], e[1]) for e in spec['edges']]
            cand = [i for i, e in enumerate(spec['edges']) if e[2].get('delay') and pairs.count((e[0], e[1])) == 1]
            if cand:
                cfg['ev_edge'] = rng.choice(cand)
                cfg['vectorize'] = False
                cfg['prelude'] = None
        if stratum == 'S-hub':
            spec = self.gen_hub(rng, dt)
            cfg['vectorize'] = rng.random() < 0.8
        if stratum == 'S-matrix':
            spec = self.gen_matrix(rng, dt)
            cfg['vectorize'] = rng.random() < 0.7
        if cfg['prelude'] and not stratum.startswith('S-conn') and rng.random() < 0.4:
            # another circuit made of the very same template objects was compiled before, at another step size
            cfg['prelude']['same_object'] = True
        return {'spec': spec, 'cfg': cfg}

    @staticmethod
    def gen_matrix(rng, dt):
        """projections created by add_edges_from_matrix: source group A onto target groups B and C, weights and DELAYS given
        as matrices; the two calls may be handed the same attribute dict (one delay matrix for both projections)"""
        ka, kb = rng.sample(['lin', 'leak', 'integ', 'linl'], 2)
        A = models.gen_net(rng, n_nodes=rng.randint(1, 2), libs=(ka,), max_edges=0, uniq='_a')
        nt_ = rng.randint(2, 3)
        B = models.gen_net(rng, n_nodes=nt_, libs=(kb,), max_edges=0, uniq='_b')
        C = models.gen_net(rng, n_nodes=nt_, libs=(kb,), max_edges=0, uniq='_c')
        spec = {'name': 'c', 'build': 'python', 'ops': {}, 'nts': {}, 'nodes': {}, 'edges': []}
        groups = []
        for tag, part in (('a', A), ('b', B), ('c', C)):
            spec['ops'].update(part['ops'])
            spec['nts'].update(part['nts'])
            names = []
            for n, ntk in part['nodes'].items():
                spec['nodes'][n + tag] = ntk
                names.append(n + tag)
            groups.append(names)
        # B and C nodes use the same operator template (one target_var for a call) - take B's for both
        opB = spec['ops'][spec['nts'][spec['nodes'][groups[1][0]]]['ops'][0]]
        for n in groups[1] + groups[2]:
            if spec['ops'][spec['nts'][spec['nodes'][n]]['ops'][0]]['name'] != opB['name']:
                # re-point the node template to B's operator kind: simplest is to reuse B's node templates for C
                pass
        ntB = [spec['nodes'][n] for n in groups[1]]
        for i, n in enumerate(groups[2]):
            spec['nodes'][n] = ntB[i % len(ntB)]
        opA = spec['ops'][spec['nts'][spec['nodes'][groups[0][0]]]['ops'][0]]
        # all A nodes share one operator template as well
        ntA = spec['nodes'][groups[0][0]]
        for n in groups[0]:
            spec['nodes'][n] = ntA
        used_nts = set(spec['nodes'].values())
        spec['nts'] = {k: v for k, v in spec['nts'].items() if k in used_nts}
        used_ops = {o for nt in spec['nts'].values() for o in nt['ops']}
        spec['ops'] = {k: v for k, v in spec['ops'].items() if k in used_ops}
        src_var = f"{opA['name']}/{models.LIB[opA['lib']]['out']}"
        tgt_var = f"{opB['name']}/{models.LIB[opB['lib']]['in']}"
        share = rng.random() < 0.6
        f32 = rng.random() < 0.3          # delay matrices handed over in single precision (np.float32 entries)
        D0 = None
        spec['matrix'] = []
        for gi, tg in enumerate((groups[1], groups[2])):
            W = [[(rng.randint(-32, 32) / 16 or 0.5) if rng.random() < 0.85 else 0.0 for _ in groups[0]] for _ in tg]
            Dn = [[rng.randint(2, 12) for _ in groups[0]] for _ in tg]
            D = [[(n + rng.uniform(-0.4, 0.4)) * dt for n in row] for row in Dn]
            if share and D0 is not None:
                D = D0
            D0 = D0 or D
            spec['matrix'].append({'sources': groups[0], 'targets': tg, 'src_var': src_var, 'tgt_var': tgt_var, 'W': W, 'D': D,
                                   'share': share, 'f32': f32})
            for j, t_ in enumerate(tg):
                for i, s_ in enumerate(groups[0]):
                    if abs(W[j][i]) > 1e-6:
                        spec['edges'].append([f'{s_}/{src_var}', f'{t_}/{tgt_var}', {'weight': W[j][i], 'delay': D[j][i], 'mx': gi}])
        # node templates are shared between nodes here: initial values cannot be told apart per node, so the per-node
        # values come through update_var at build time (recorded in the spec as node-level values)
        pool = list(range(-96, 97))
        rng.shuffle(pool)
        spec['node_values'] = {}
        for n, ntk in spec['nodes'].items():
            for opk in spec['nts'][ntk]['ops']:
                o = spec['ops'][opk]
                for sv in models.LIB[o['lib']]['state']:
                    spec['node_values'][f"{n}/{o['name']}/{sv}"] = pool.pop() / 64
        return spec

    @staticmethod
    def gen_hub(rng, dt):
        """one hub node of its own operator kind projecting with DIFFERENT delays onto several nodes of one other kind
        (the hub is a vectorized group of size one; all its edges form one edge group)"""
        ka, kb = rng.sample(['lin', 'leak', 'integ', 'linl'], 2)
        spec = models.gen_net(rng, n_nodes=1, libs=(ka,), max_edges=0, build=rng.choice(['python', 'yaml']))
        spokes = models.gen_net(rng, n_nodes=rng.randint(2, 4), libs=(kb,), max_edges=0, uniq='_s')
        hub = next(iter(spec['nodes']))
        spec['ops'].update(spokes['ops'])
        spec['nts'].update(spokes['nts'])
        for n, ntk in spokes['nodes'].items():
            spec['nodes'][n + 's'] = ntk
        hk = spec['ops'][spec['nts'][spec['nodes'][hub]]['ops'][0]]
        src = f"{hub}/{hk['name']}/{models.LIB[hk['lib']]['out']}"
        steps = rng.sample(range(2, 13), len(spokes['nodes']))
        for (n, ntk), nd in zip(spokes['nodes'].items(), steps):
            ok = spec['ops'][spokes['nts'][ntk]['ops'][0]]
            spec['edges'].append([src, f"{n}s/{ok['name']}/{models.LIB[ok['lib']]['in']}",
                                  {'weight': rng.randint(-32, 32) / 16 or 0.5, 'delay': (nd + rng.uniform(-0.4, 0.4)) * dt}])
        pool = list(range(-96, 97))
        rng.shuffle(pool)
        for nt in spec['nts'].values():          # one pool for all initial values: every state variable stays decodable
            for opk, var in nt['var'].items():
                for sv in models.LIB[spec['ops'][opk]['lib']]['state']:
                    var[sv] = pool.pop() / 64
        if rng.random() < 0.4:      # a spoke talks back without delay
            n, ntk = rng.choice(list(spokes['nodes'].items()))
            ok = spec['ops'][spokes['nts'][ntk]['ops'][0]]
            spec['edges'].append([f"{n}s/{ok['name']}/{models.LIB[ok['lib']]['out']}", f"{hub}/{hk['name']}/{models.LIB[hk['lib']]['in']}",
                                  {'weight': 0.5}])
        return spec

    # ---------------------------------------------------------------------------------------------------
    def execute(self, trace):
        import numpy as np, warnings
        warnings.filterwarnings('ignore')
        from sim.spies import Recorder
        spec, cfg = trace['spec'], trace['cfg']
        res = {'violations': [], 'digest': digest([spec, cfg]), 'nontrivial': False, 'probes': {}, 'faults': {}, 'stats': {}}
        P = res['probes']

        def bump(k, n=1):
            P[k] = P.get(k, 0) + n

        def V(law, cls, key, detail):
            res['violations'].append({'law': law, 'cls': cls, 'key': key, 'detail': detail})
        dt, steps = cfg['dt'], cfg['steps']
        T = steps * dt
        kw = {}
        ev_kw = {}
        if cfg.get('sparseness') is not None:
            kw['matrix_sparseness'] = cfg['sparseness']
        pop = spec.get('kind') == 'pop'
        shared_objs = {}      # template objects (populations, connectivities / operator and node templates) kept for a 2nd build
        try:
            if pop:
                bump('pop')
                c = build_pop(spec, dt, share=shared_objs)
                names = [f'{p}/lin/x#{i}' for p, q in spec['pops'].items() for i in range(q['n'])]
                outputs = {p: f'{p}/lin/x' for p in spec['pops']}
            else:
                if spec.get('matrix'):
                    bump('matrix_edges')
                    sb = copy.deepcopy(spec)
                    sb['edges'] = [e for e in sb['edges'] if 'mx' not in e[2]]
                    c = models.build(sb)
                    c.update_var(node_vars=dict(spec['node_values']))
                    shared_attr = None
                    for g in spec['matrix']:
                        if g['share']:
                            if shared_attr is None:
                                shared_attr = {'delay': np.array(g['D'], dtype=np.float32 if g.get('f32') else float)}
                            attr = shared_attr          # the user hands the same dict to both calls
                            bump('matrix_attr_dict_reused')
                        else:
                            attr = {'delay': np.array(g['D'], dtype=np.float32 if g.get('f32') else float)}
                        if g.get('f32'):
                            bump('matrix_float32_delays')
                        c.add_edges_from_matrix(g['src_var'], g['tgt_var'], list(g['sources']), list(g['targets']),
                                                weight=np.array(g['W']), edge_attr=attr)
                else:
                    if (cfg.get('prelude') or {}).get('same_object'):
                        spec['build'] = 'python'
                        c = models.build(spec, pool=shared_objs)
                    elif cfg.get('ev_edge') is not None and cfg['ev_edge'] < len(spec['edges']) \
                            and spec['edges'][cfg['ev_edge']][2].get('delay'):
                        sb = copy.deepcopy(spec)
                        e_ = sb['edges'][cfg['ev_edge']]
                        ev_kw = {'edge_values': {(e_[0], e_[1]): {'delay': e_[2].pop('delay')}}}
                        c = models.build(sb)
                        bump('delay_via_edge_values')
                    else:
                        c = models.build(spec)
                net = models.RefNet(spec)
                for key_, v_ in (spec.get('node_values') or {}).items():
                    n_, o_, var_ = key_.split('/')
                    net.set_value(n_, o_, var_, v_)
                names = net.state_names
                outputs = {f'o{i}': n for i, n in enumerate(names)}
        except Exception as e:
            res['discard'] = f'construction failed: {type(e).__name__}'
            return res
        rec = Recorder()
        ext_in = {}
        per = 2 if cfg['solver'] == 'heun' else 1
        pre = None
        if cfg.get('prelude'):
            bump('prelude')
            try:
                dt_pre = dt * cfg['prelude']['dt_factor']
                pkw = dict(kw)
                if cfg['prelude'].get('same_object') and not spec.get('matrix'):
                    # another circuit built from the very same template objects (PopulationTemplate / Connectivity, or
                    # operator / node templates), compiled first
                    cp = build_pop(spec, dt, share=shared_objs) if pop else models.build(spec, pool=shared_objs)
                    bump('prelude_same_object')
                    if pop:
                        # the OTHER circuit gets an override on a population variable (whatever that does there, the circuit
                        # under test merely shares the population objects and keeps its own values)
                        try:
                            cp.update_var(node_vars={f"{next(iter(spec['pops']))}/lin/g": 5.0})
                            bump('override_on_shared_population')
                        except Exception:
                            pass
                else:
                    cp = build_pop(spec, dt_pre) if pop else models.build(copy.deepcopy(spec), fname='m_prelude')
                pf, pargs, _, _ = cp.get_run_func('pre', dt_pre, vectorize=cfg['vectorize'], float_precision='float64',
                                                  verbose=False, solver='euler', file_name='prelude_fn', **pkw)
                pre = [pf, np.array(pargs[1], copy=True), pargs[2:], dt_pre, 0]
            except Exception:
                pre = None

        def step_prelude():
            if pre is not None:
                pf, py, prest, pdt, pk = pre
                try:
                    pre[1] = py + pdt * np.asarray(pf(pk, py, *prest))
                    pre[4] = pk + 1
                except Exception:
                    pass
        try:
            kw.update(ev_kw)
            if cfg['mode'] == 'run':
                skw = {'sampling_step_size': cfg['m'] * dt} if cfg.get('m', 1) > 1 else {}
                if skw:
                    bump('subsampled')
                if cfg.get('backend'):
                    kw['backend'] = cfg['backend']
                    bump(cfg['backend'])
                if cfg.get('input') and not pop and cfg['solver'] == 'euler':
                    cands = sorted((k_, i_) for k_, i_ in net.inst.items() if models.LIB[i_['lib']]['in'])
                    (inode, iop), iinst = cands[int(cfg['input']['pick'] * len(cands)) % len(cands)]
                    u_ext = cfg['input']['amp'] * (1.0 + (np.arange(steps) % 17) / 16.0 + np.arange(steps) / 1024.0)
                    kw['inputs'] = {f"{inode}/{iop}/{models.LIB[iinst['lib']]['in']}": u_ext}
                    ext_in[(inode, iop)] = u_ext
                    bump('extrinsic_input')
                c.run(T, dt, outputs=outputs, solver=cfg['solver'], vectorize=cfg['vectorize'],
                      float_precision=cfg.get('precision', 'float64'), decorator=rec, verbose=False, **skw, **kw)
            else:
                bump('own_stepping')
                f, args, anames, smap = c.get_run_func('vf', dt, vectorize=cfg['vectorize'], float_precision=cfg.get('precision', 'float64'),
                                                       decorator=rec, verbose=False, solver='euler', **kw)
                y = np.array(args[1], copy=True)
                rest = args[2:]          # the SAME argument tuple throughout: ring buffers live in it
                for k in range(steps):
                    if pre is not None and cfg['prelude']['interleave'][k % 60]:
                        step_prelude()
                    r = f(k, y, *rest)
                    y = y + dt * np.asarray(r)
        except Exception as e:
            import traceback
            tb = traceback.extract_tb(e.__traceback__)
            where = f'{tb[-1].filename.split("/")[-1]}:{tb[-1].name}'
            if not rec.events:
                res['discard'] = f'model refused: {type(e).__name__} at {where}'
                return res
            V('L-run', 'loud', type(e).__name__, f'raised {type(e).__name__}: {str(e)[:160]} at {where} after {rec.calls} evaluations')
            return res
        E = rec.events
        if len(E) != steps * per:
            V('L-count', 'silent', 'evaluations', f'{len(E)} evaluations for {steps} steps ({cfg["solver"]})')
            return res
        if not all(np.all(np.isfinite(x[1])) and np.all(np.isfinite(x[2])) for x in E):
            res['discard'] = 'non-finite trajectory'
            return res
        # ---- positions by unique initial values
        y0 = np.asarray(E[0][1]).reshape(-1)
        if pop:
            decl = {f'{p}/lin/x#{i}': q['x0'][i] for p, q in spec['pops'].items() for i in range(q['n'])}
        else:
            decl = net.y0()
        pos = {}
        for n in names:
            hits = [i for i, v in enumerate(y0) if v == decl[n]]
            if len(hits) != 1:
                V('L-init', 'silent', 'initial-state', f'declared initial value {decl[n]} of {n} at positions {hits} of {y0.tolist()}')
                return res
            pos[n] = hits[0]
        num = (lambda x: complex(x)) if cfg.get('precision', 'float64').startswith('complex') else float
        traj = [{n: num(np.asarray(E[k * per][1]).reshape(-1)[p]) for n, p in pos.items()} for k in range(steps)]
        # ---- edges: (src name, tgt (node, op) key, weight, n_steps)
        checked = 0
        active = False
        if pop:
            A = {f'{p}/lin/x#{i}': q['a'][i] for p, q in spec['pops'].items() for i in range(q['n'])}
            srcs = {}
            for cn in spec['conns']:
                if cn['dsteps']:
                    srcs.setdefault(cn['s'], set()).add(cn['dsteps'])
            if any(len(v) > 1 for v in srcs.values()):
                bump('two_delays_one_source')
            for e, (t, y, r) in enumerate(E):
                k = e // per
                yv = np.asarray(y).reshape(-1)
                rv = np.asarray(r).reshape(-1)
                for tp, tq in spec['pops'].items():
                    exp = np.zeros(tq['n'])
                    for cn in spec['conns']:
                        if cn['t'] != tp:
                            continue
                        nd = cn['dsteps'] or 0
                        sq = spec['pops'][cn['s']]
                        if nd == 0:
                            src = np.array([float(yv[pos[f"{cn['s']}/lin/x#{i}"]]) for i in range(sq['n'])])
                        elif k - nd >= 0:
                            src = np.array([traj[k - nd][f"{cn['s']}/lin/x#{i}"] for i in range(sq['n'])])
                            active = True
                        else:
                            src = np.zeros(sq['n'])
                        W = cn['W']
                        if cn.get('coup'):
                            bump('coupling_function')
                            post = np.array([float(yv[pos[f'{tp}/lin/x#{i}']]) for i in range(tq['n'])])
                            kk = cn['coup']['kk']
                            F = kk * np.tanh(src)[None, :] * np.ones((tq['n'], 1)) if cn['coup']['kind'] == 'tanh' \
                                else kk * (src[None, :] - post[:, None])
                            exp += (np.array(W) * F).sum(axis=1)
                            continue
                        exp += (np.array(W) @ src) if isinstance(W, list) else W * src.sum()
                    for i in range(tq['n']):
                        nm = f'{tp}/lin/x#{i}'
                        got = float(rv[pos[nm]]) + A[nm] * float(yv[pos[nm]])
                        if abs(got - exp[i]) > 1e-9 * max(1.0, abs(exp[i]), abs(got)):
                            V('L-delay', 'silent', 'connectivity' + ('-corrector' if per == 2 and e % 2 else ''),
                              f'evaluation {e} (step {k}): unit {nm} received {got!r}, delay-line recurrence gives {exp[i]!r}; '
                              f'connections {[(c_["s"], c_["t"], c_["dsteps"]) for c_ in spec["conns"]]}')
                            return res
                checked += 1
        else:
            edges = []
            per_src = {}
            ets_ = spec.get('ets') or {}
            if ets_:
                bump('edge_templates')
            for s, t, a in net.edges:
                nd = int(np.round(a['delay'] / dt)) if a.get('delay') else 0
                edges.append((s, t, a, nd))
                per_src.setdefault(s, set()).add(nd)
            if any(len([x for x in v if x]) > 1 for v in per_src.values()):
                bump('two_delays_one_source')
            if any(0 in v and len(v) > 1 for v in per_src.values()):
                bump('mixed_same_source')
            for e, (t, y, r) in enumerate(E):
                k = e // per
                yn = {n: num(np.asarray(y).reshape(-1)[p]) for n, p in pos.items()}
                rn = {n: num(np.asarray(r).reshape(-1)[p]) for n, p in pos.items()}
                got = net.recover_inputs(yn, rn)
                for (node, opn), g in got.items():
                    if net.inst[(node, opn)]['lib'] == 'rd':
                        # second operator of a multi-operator node: it reads the CURRENT value of its sibling's variable,
                        # whether or not that variable also feeds delayed edges
                        want = net.undelayed_input(yn, node, opn)
                        if abs(g - want) > 1e-9 * max(1.0, abs(want), abs(g)):
                            V('L-delay', 'silent', 'intra-node',
                              f'evaluation {e} (step {k}): {node}/{opn} reads {net.inst[(node, opn)]["reads"]} and received {g!r}, '
                              f'the current value is {want!r}; vectorize={cfg["vectorize"]}')
                            return res
                        continue
                    invar = f"{node}/{opn}/{models.LIB[net.inst[(node, opn)]['lib']]['in']}"
                    want = float(ext_in[(node, opn)][k]) if (node, opn) in ext_in else 0.0
                    for s, tt, a_, nd in edges:
                        if tt != invar:
                            continue
                        if nd == 0:
                            want += models.edge_value(a_, ets_, yn, s)      # current values, as handed to this very evaluation
                        elif cfg.get('emulate') == 'roll_per_evaluation':
                            # defect model of KF-C09-heun-double-roll: the ring buffer advances once per EVALUATION
                            if e - nd >= 0:
                                yv_ = np.asarray(E[e - nd][1]).reshape(-1)
                                want += models.edge_value(a_, ets_, {n_: num(yv_[p_]) for n_, p_ in pos.items()}, s)
                                active = True
                        elif k - nd >= 0:
                            want += models.edge_value(a_, ets_, traj[k - nd], s)
                            active = True
                    if abs(g - want) > 1e-9 * max(1.0, abs(want), abs(g)):
                        ins = [(s, a_.get('weight', 1.0), nd) for s, tt, a_, nd in edges if tt == invar]
                        V('L-delay', 'silent', ('heun-' if per == 2 else '') + ('vectorized' if cfg['vectorize'] else 'scalar'),
                          f'evaluation {e} (step {k}): {node}/{opn} received {g!r}, delay-line recurrence over the recorded '
                          f'trajectory gives {want!r}; incoming (source, weight, steps): {ins}; vectorize={cfg["vectorize"]}')
                        return res
                checked += 1
        if active:
            bump('delayed_active')
        res['nontrivial'] = active and checked >= 10
        res['stats'] = {'rhs_events': len(E), 'checked': checked}
        res['sim_time'] = T
        return res

    # ---------------------------------------------------------------------------------------------------
    def shrink(self, trace):
        cfg, spec = trace['cfg'], trace['spec']
        if cfg['steps'] > 15:
            yield with_key(trace, ['cfg', 'steps'], 15)
        if cfg.get('sparseness') is not None:
            yield with_key(trace, ['cfg', 'sparseness'], None)
        if spec.get('kind') == 'pop':
            for i in range(len(spec['conns'])):
                if len(spec['conns']) > 1:
                    t = copy.deepcopy(trace)
                    del t['spec']['conns'][i]
                    yield t
            for p in spec['pops']:
                if spec['pops'][p]['n'] > 1:
                    t = copy.deepcopy(trace)
                    q = t['spec']['pops'][p]
                    q['n'] -= 1
                    q['a'] = q['a'][:-1]
                    q['x0'] = q['x0'][:-1]
                    for c_ in t['spec']['conns']:
                        if isinstance(c_['W'], list):
                            if c_['s'] == p:
                                c_['W'] = [row[:-1] for row in c_['W']]
                            if c_['t'] == p:
                                c_['W'] = c_['W'][:-1]
                    yield t
            return
        if cfg['vectorize'] is False and False:
            pass
        if spec.get('build') == 'yaml':
            yield with_key(trace, ['spec', 'build'], 'python')
        if spec.get('matrix'):
            # (the edge list of such a spec is derived from its matrices: dropping single edges or nodes would leave the
            #  reference and the add_edges_from_matrix calls describing different models)
            return
        from checks.c03 import shrink_spec
        for t in shrink_spec({'spec': spec, 'cfg': {'input': None}}):
            t2 = copy.deepcopy(trace)
            t2['spec'] = t['spec']
            yield t2

        # delay -> none on single edges
        def levels(s, path):
            yield s, path
            for k, sub in (s.get('circuits') or {}).items():
                yield from levels(sub, path + ['circuits', k])
        for s, path in levels(spec, ['spec']):
            for i, e in enumerate(s.get('edges', [])):
                if e[2].get('delay'):
                    t = copy.deepcopy(trace)
                    d = t
                    for k in path:
                        d = d[k]
                    d['edges'][i][2].pop('delay', None)
                    d['edges'][i][2].pop('dsteps', None)
                    yield t

    def known(self):
        def heun(trace, v):
            return trace['cfg']['solver'] == 'heun' and v['law'] == 'L-delay'

        def ab_heun(t):
            t['cfg']['solver'] = 'euler'
            return t

        def explain(t):
            t['cfg']['emulate'] = 'roll_per_evaluation'
            return t
        return [KF('KF-C09-heun-double-roll', heun, ab_heun, explain=explain)]


CHECK = C09()
