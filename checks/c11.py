"""C11 — distributed delays are unit-gain gamma kernels with the stated mean.

Lock-step run against the explicitly written augmented system: for every edge with (delay d, spread s) the harness adds a
chain of n = round((d/s)^2) first-order stages of rate n/d to the reference network (RefGamma) and steps both with the
same Euler dt (or integrates both with the same adaptive method); every user variable must agree at EVERY stored step.
"""
import copy, json, math
import scipy.integrate  # noqa
from sim.driver import Check, KF, digest
from sim import models
from sim.shrink import with_key


def kernel_order(d, s, dde_approx=0):
    n = int(round((d / s) ** 2))
    return max(n, dde_approx)


def gen_pair(rng):
    """(d, s) with (d/s)^2 in [1, 12.4], including the .5 rounding boundaries"""
    # delays incl. values whose rate n/d and whose ratio d/dt are not short decimal fractions
    d = rng.choice([0.02, 0.05, 0.1, 0.25, 0.4, 0.012, 0.007, 0.03, 0.0123456, 0.0471, 2.0, 3.0, 4.0, 5.0])
    kind = rng.random()
    if kind < 0.25:
        q = rng.choice([1.5, 2.5, 3.5, 5.5]) + rng.choice([-1e-6, 1e-6, -0.01, 0.01])
    else:
        q = rng.uniform(1.0, 12.4)
    return d, d / math.sqrt(q)


def stale_buffer_reads(src):
    """names of '<var>_buffered...' arrays that the generated function READS before the line that refreshes them
    (the array persists between evaluations in the argument tuple, so such a read sees the previous evaluation)"""
    import re
    written, stale = set(), set()
    for line in src.splitlines():
        line = line.strip()
        m = re.match(r'(\w*_buffered\w*)(\[[^\]]*\])?\s*=(?!=)', line)
        rhs = line.split('=', 1)[1] if (m and '=' in line) else line
        for name in re.findall(r'\b(\w*_buffered\w*)\b', rhs if m else line):
            if name not in written and not line.startswith('def '):
                stale.add(name)
        if m:
            written.add(m.group(1))
    return sorted(stale)


class RefGamma:
    """RefNet + explicit linear chains for (delay, spread) edges; plain dict state, plain loops"""

    def __init__(self, spec, dde_approx=0):
        self.net = models.RefNet(spec)
        self.chains = []     # (src name, tgt key, weight, n, rate, [z names])
        for i, (s, t, a) in enumerate(self.net.edges):
            if a.get('delay') and a.get('spread'):
                n = kernel_order(a['delay'], a['spread'], dde_approx)
                self.chains.append((s, t, a.get('weight', 1.0), n, n / a['delay'], [f'__z{i}_{k}' for k in range(n)]))

    def y0(self):
        y = self.net.y0()
        for c in self.chains:
            for z in c[5]:
                y[z] = 0.0
        return y

    def rhs(self, y):
        extra = {}
        out = {}
        for s, t, w, n, r, zs in self.chains:
            node_op = tuple(t.rsplit('/', 2)[:2])
            last = y[zs[-1]] if n > 0 else y[s]
            extra[node_op] = extra.get(node_op, 0.0) + w * last
            prev = y[s]
            for z in zs:
                out[z] = r * (prev - y[z])
                prev = y[z]
        user = {k: v for k, v in y.items() if not k.startswith('__z')}
        out.update(self.net.rhs(user, extra))
        return out


class C11(Check):
    pid = 'C11'
    timeout = 120.0
    quick_runs = 900
    thorough_budget_s = 900
    rule = ('one run = one seeded circuit in which some edges carry (delay, spread) pairs with (d/s)^2 in [1, 12.4] '
            '(pairs rounding to the same and to different orders, .5 boundaries, optional dde_approx), edges sharing '
            'sources and targets, several kernels per source, vectorize on/off, scalar nodes or Population/Connectivity, '
            'run with euler or an adaptive solver, optionally after another kernel model was compiled in the same '
            'process; the harness builds the augmented explicit system and steps it with the same dt; distinct = '
            'distinct decision digest; non-trivial = the run completed, >= 1 kernel edge with order >= 1 and >= 10 rows '
            'compared')
    components_real = ['pyrates ir/circuit.py (_add_edge_buffer ODE branch, _add_matrix_delay cascade), code generation, '
                       'solver loops']
    components_stubbed = ['none']
    assumptions = ['Python round() and numpy round agree on the sampled (d/s)^2 values (boundaries are offset by >= 1e-6)']
    required_probes = {'thorough': ['two_kernels_one_source', 'same_order_pair', 'pop', 'adaptive', 'prelude', 'dde_approx']}

    def strata(self, tier):
        return [('S-scalar', 4), ('S-vec', 4), ('S-conn', 2), ('S-adaptive', 2), ('S-interleaved', 2), ('S-big', 1)]

    def generate(self, rng, stratum, tier):
        dt = rng.choice([1e-3, 2e-3, 5e-3])
        steps = rng.randint(20, 80)
        cfg = {'dt': dt, 'steps': steps, 'solver': 'scipy' if stratum == 'S-adaptive' else 'euler',
               'vectorize': stratum == 'S-vec' or (stratum not in ('S-scalar',) and rng.random() < 0.5),
               'dde_approx': rng.choice([0, 0, 0, 2, 4]), 'prelude': stratum == 'S-interleaved',
               'method': rng.choice(['RK45', 'DOP853', 'LSODA'])}
        if stratum == 'S-conn':
            from checks.c09 import gen_pop
            spec = gen_pop(rng, multi=False)
            for c in spec['conns']:
                if rng.random() < 0.7:
                    d, s = gen_pair(rng)
                    c['delay'], c['spread'] = d, s
                c['dsteps'] = None
            if not any(c.get('spread') for c in spec['conns']):
                d, s = gen_pair(rng)
                spec['conns'][0]['delay'], spec['conns'][0]['spread'] = d, s
            cfg['vectorize'] = True
            # dde_approx is passed along in a third of the runs: a connection that carries a spread keeps its own order
            # round((d/s)^2) whatever dde_approx says (every delayed connection generated here has a spread)
            cfg['dde_approx'] = rng.choice([0, 0, 2, 3])
            for c in spec['conns']:
                if not c.get('spread'):
                    c['delay'] = None
            return {'spec': spec, 'cfg': cfg}
        pairs = [gen_pair(rng) for _ in range(3)]
        if rng.random() < 0.2:
            # slow kernels of ONE order whose rates n/d lie close together (0.6, 0.75, 1.0, ...): edges must keep their own
            q = rng.choice([2.0, 3.0, 4.0]) + rng.choice([-0.2, 0.0, 0.2])
            pairs = [(d_, d_ / math.sqrt(q)) for d_ in rng.sample([2.0, 3.0, 4.0, 5.0, 6.0], 3)]

        def delays(r):
            if r.random() < 0.65:
                d, s = r.choice(pairs) if r.random() < 0.6 else gen_pair(r)
                return {'delay': d, 'spread': s}
            return {}
        spec = models.gen_net(rng, n_nodes=rng.randint(2, 5), libs=('lin', 'leak', 'sat', 'osc', 'linl'), max_edges=6,
                              delays=delays, hier=rng.random() < 0.2,
                              # multi-operator nodes: the kernel's source variable is also read inside its node
                              readouts=(0.5, 0.0, 0.5) if rng.random() < 0.25 else None)
        kern = [e for e in spec['edges'] if e[2].get('delay') and e[2].get('spread')]
        if kern and stratum != 'S-big' and rng.random() < 0.2:
            # a kernel whose mean delay is at most one step, next to a longer kernel on the same source variable
            src, tgt, _ = rng.choice(kern)
            d = rng.choice([0.8, 0.5, 1.0]) * dt
            others = sorted({e[1] for e in spec['edges']} - {tgt}) or [tgt]
            spec['edges'].append([src, rng.choice(others), {'weight': rng.choice([0.75, -1.25, 1.5]), 'delay': d,
                                                           'spread': d / math.sqrt(rng.choice([2.0, 3.0, 1.0]))}])
        if stratum != 'S-big' and rng.random() < 0.15:
            # delay and spread of every kernel edge typed as numpy float32 scalars (values exactly representable in single
            # precision, ratio (d/s)^2 well away from the .5 rounding boundaries)
            import struct
            f32 = lambda x: struct.unpack('f', struct.pack('f', x))[0]
            for e in spec['edges']:
                if e[2].get('delay') and e[2].get('spread') and e[2]['delay'] > 1.5 * dt:
                    d_ = f32(float(e[2]['delay']))
                    e[2].update({'delay': d_, 'spread': f32(d_ / math.sqrt(rng.choice([2.0, 3.0, 4.0]) + 0.2)), 'f32': True})
            spec['build'] = 'python'
        elif rng.random() < 0.2:
            # delays typed as whole numbers (2 instead of 2.0)
            for e in spec['edges']:
                if e[2].get('delay') and float(e[2]['delay']).is_integer():
                    e[2]['delay'] = int(e[2]['delay'])
        if stratum == 'S-big':
            # one vectorized group of 10-16 nodes with kernel edges in a ring / fan-out / converging pattern
            spec = models.gen_big(rng, kind=rng.choice(['converge', 'converge', 'ring', 'fan']), delays=delays)
            cfg['vectorize'] = rng.random() < 0.85
            cfg['steps'] = rng.randint(20, 40)
        return {'spec': spec, 'cfg': cfg}

    # ---------------------------------------------------------------------------------------------------
    def execute(self, trace):
        import numpy as np, warnings
        warnings.filterwarnings('ignore')
        spec, cfg = trace['spec'], trace['cfg']
        res = {'violations': [], 'digest': digest([spec, cfg]), 'nontrivial': False, 'probes': {}, 'faults': {}, 'stats': {}}
        P = res['probes']

        def bump(k, n=1):
            P[k] = P.get(k, 0) + n

        def V(law, cls, key, detail):
            res['violations'].append({'law': law, 'cls': cls, 'key': key, 'detail': detail})
        dt, steps = cfg['dt'], cfg['steps']
        T = dt * steps
        pop = spec.get('kind') == 'pop'
        kw = {}
        if cfg['dde_approx']:
            kw['dde_approx'] = cfg['dde_approx']
            bump('dde_approx')
        if cfg['solver'] == 'scipy':
            kw.update({'method': cfg['method'], 'rtol': 1e-9, 'atol': 1e-11})
            bump('adaptive')
        # ------------------------------------------------------------------ build
        try:
            if pop:
                bump('pop')
                c = self._build_pop(spec)
                outputs = {p: f'{p}/lin/x' for p in spec['pops']}
            else:
                if cfg['prelude']:
                    bump('prelude')
                    try:   # another kernel model compiled earlier in this process and never cleared
                        cp = models.build(copy.deepcopy(spec), fname='m_prelude')
                        cp.get_run_func('pre', dt * 2, vectorize=cfg['vectorize'], float_precision='float64', verbose=False,
                                        file_name='prelude_fn')
                    except Exception:
                        pass
                c = models.build(spec)
                net = models.RefNet(spec)
                outputs = {f'o{i}': n for i, n in enumerate(net.state_names)}
        except Exception as e:
            res['discard'] = f'construction failed: {type(e).__name__}'
            return res
        stale = []
        try:
            # look at the generated source of the same model (own file name): does it read a buffered vector before
            # refreshing it?  (identifies known finding KF-C11-buffer-read-before-refresh by its call site)
            cc = copy.deepcopy(c)
            pkw = {k: v for k, v in kw.items() if k == 'dde_approx'}
            cc.get_run_func('probe', dt, vectorize=cfg['vectorize'], float_precision='float64', verbose=False,
                            solver=cfg['solver'], file_name='c11_probe', clear=False, **pkw)
            with open('c11_probe.py') as fh:
                stale = stale_buffer_reads(fh.read())
            cc.clear()
        except Exception:
            pass
        if stale:
            bump('buffer_read_before_refresh')
        try:
            R = c.run(T, dt, outputs=outputs, solver=cfg['solver'], vectorize=cfg['vectorize'], float_precision='float64',
                      verbose=False, **kw)
        except Exception as e:
            import traceback
            tb = traceback.extract_tb(e.__traceback__)
            res['discard'] = f'model refused: {type(e).__name__} at {tb[-1].filename.split("/")[-1]}:{tb[-1].name}'
            return res
        if not np.all(np.isfinite(R.values)):
            res['discard'] = 'non-finite trajectory'
            return res
        # ------------------------------------------------------------------ reference
        if pop:
            ref_rows, cols, n_kernel = self._ref_pop(spec, dt, steps, np)
            got = {}
            for col in R.columns:
                key = col if isinstance(col, str) else col
                got[key] = np.asarray(R[col].values, dtype=float)
            # population outputs come as (key, unit) columns
            def getcol(p, i):
                for col in R.columns:
                    if isinstance(col, tuple) and col[0] == p and col[1] == i:
                        return np.asarray(R[col].values, dtype=float)
                if spec['pops'][p]['n'] == 1:
                    # a one-unit population is returned under its bare key; next to multi-unit outputs run() builds the
                    # MultiIndex from that bare string (label split into characters) - a labelling matter (C06), not C11's
                    for col in R.columns:
                        parts = [x for x in col if isinstance(x, str)] if isinstance(col, tuple) else [col]
                        if col == p or ''.join(parts) == p:
                            return np.asarray(R[col].values, dtype=float)
                return None
            compared = 0
            for (p, i) in cols:
                g = getcol(p, i)
                if g is None:
                    V('L-columns', 'silent', 'population-output', f'no column for unit {i} of {p}: {list(R.columns)}')
                    return res
                w = np.array([row[(p, i)] for row in ref_rows[:len(g)]])
                bad = np.nonzero(np.abs(g - w) > 1e-9 * np.maximum(1.0, np.abs(w)))[0]
                if len(bad):
                    b = bad[0]
                    V('L-lockstep', 'silent', 'connectivity',
                      f'unit {p}[{i}] at step {b}: run {g[b]!r}, explicit chain system {w[b]!r}; connections '
                      f'{[(c_["s"], c_["t"], c_.get("delay"), c_.get("spread")) for c_ in spec["conns"]]}')
                    return res
                compared += len(g)
            res['nontrivial'] = n_kernel >= 1 and compared >= 10
            return res
        ref = RefGamma(spec, cfg['dde_approx'])
        if any(a.get('delay') and not a.get('spread') for _, _, a in ref.net.edges):
            res['discard'] = 'pure delay mixed in (not generated)'
            return res
        orders = [c_[3] for c_ in ref.chains]
        per_src = {}
        for c_ in ref.chains:
            per_src.setdefault(c_[0], []).append((c_[3], round(c_[4], 9)))
        if any(len(set(v)) > 1 for v in per_src.values()):
            bump('two_kernels_one_source')
        if any(len(v) > len(set(v)) for v in per_src.values()):
            bump('same_order_pair')
        names = ref.net.state_names
        if cfg['solver'] == 'euler':
            y = ref.y0()
            rows = [dict(y)]
            for k in range(steps - 1):
                r = ref.rhs(y)
                y = {n: y[n] + dt * r[n] for n in y}
                rows.append(dict(y))
            tol = 1e-9
        else:
            from scipy.integrate import solve_ivp
            order = list(ref.y0())
            y0 = [ref.y0()[n] for n in order]

            def f(t, yv):
                d = ref.rhs(dict(zip(order, yv)))
                return [d[n] for n in order]
            idx = np.asarray(R.index.values, dtype=float)
            sol = solve_ivp(f, (0.0, T), y0, method=cfg['method'], rtol=1e-9, atol=1e-11, first_step=dt, t_eval=idx)
            rows = [dict(zip(order, sol.y[:, j])) for j in range(sol.y.shape[1])]
            tol = 1e-6
        if any(e_[2].get('f32') for e_ in models.flatten(spec)[1]) if not pop else False:
            # single-precision delays: the kernel rate n/d may be formed in single precision (relative 6e-8) - the law is
            # the kernel (order, gain, mean), not the last digits of a rate the user gave in float32
            tol = max(tol, 2e-5)
        compared = 0
        for i, n in enumerate(names):
            g = np.asarray(R[f'o{i}'].values, dtype=float)
            w = np.array([row[n] for row in rows[:len(g)]])
            if len(w) != len(g):
                V('L-rows', 'silent', 'rows', f'{len(g)} rows returned, reference has {len(w)}')
                return res
            bad = np.nonzero(np.abs(g - w) > tol * np.maximum(1.0, np.abs(w)))[0]
            if len(bad):
                b = bad[0]
                V('L-lockstep', 'silent', ('vectorized' if cfg['vectorize'] else 'scalar') + ('-adaptive' if cfg['solver'] != 'euler' else ''),
                  f'{n} at row {b} (t={R.index.values[b]}): run {g[b]!r}, explicit chain system {w[b]!r} '
                  f'(|diff| {abs(g[b]-w[b]):.3e}); kernels (source, target, order, rate): '
                  f'{[(c_[0], c_[1], c_[3], round(c_[4], 6)) for c_ in ref.chains]}; dde_approx={cfg["dde_approx"]}, '
                  f'vectorize={cfg["vectorize"]}' + (f'; generated code reads {stale} before refreshing it' if stale else ''))
                return res
            compared += len(g)
        res['nontrivial'] = any(o >= 1 for o in orders) and compared >= 10
        res['stats'] = {'kernels': len(orders), 'rows': compared}
        res['sim_time'] = T
        return res

    @staticmethod
    def _build_pop(spec):
        from checks.c09 import build_pop
        return build_pop(spec, None)

    @staticmethod
    def _ref_pop(spec, dt, steps, np):
        pops = spec['pops']
        x = {(p, i): q['x0'][i] for p, q in pops.items() for i in range(q['n'])}
        chains = []
        for ci, c in enumerate(spec['conns']):
            if c.get('delay') and c.get('spread'):
                n = max(1, int(round((c['delay'] / c['spread']) ** 2)))
                chains.append((ci, n, n / c['delay'], [[0.0] * pops[c['s']]['n'] for _ in range(n)]))
        zmap = {ci: (n, r, z) for ci, n, r, z in chains}
        rows = []
        for k in range(steps):
            rows.append(dict(x))
            dx = {}
            newz = {}
            for p, q in pops.items():
                u = [0.0] * q['n']
                for ci, c in enumerate(spec['conns']):
                    if c['t'] != p:
                        continue
                    src = [x[(c['s'], j)] for j in range(pops[c['s']]['n'])] if ci not in zmap else zmap[ci][2][-1]
                    W = c['W']
                    if c.get('coup'):
                        import math
                        kk = c['coup']['kk']
                        for i in range(q['n']):
                            if c['coup']['kind'] == 'tanh':
                                u[i] += sum(W[i][j] * kk * math.tanh(src[j]) for j in range(len(src)))
                            else:
                                u[i] += sum(W[i][j] * kk * (src[j] - x[(p, i)]) for j in range(len(src)))
                        continue
                    for i in range(q['n']):
                        u[i] += (sum(W[i][j] * src[j] for j in range(len(src))) if isinstance(W, list) else W * sum(src))
                for i in range(q['n']):
                    dx[(p, i)] = -q['a'][i] * x[(p, i)] + u[i]
            for ci, (n, r, z) in zmap.items():
                c = spec['conns'][ci]
                src = [x[(c['s'], j)] for j in range(pops[c['s']]['n'])]
                nz = []
                prev = src
                for st in z:
                    nz.append([st[j] + dt * r * (prev[j] - st[j]) for j in range(len(st))])
                    prev = st
                newz[ci] = nz
            x = {k_: x[k_] + dt * dx[k_] for k_ in x}
            for ci in newz:
                zmap[ci] = (zmap[ci][0], zmap[ci][1], newz[ci])
        return rows, list(x), len(chains)

    def shrink(self, trace):
        cfg, spec = trace['cfg'], trace['spec']
        if cfg['steps'] > 20:
            yield with_key(trace, ['cfg', 'steps'], 20)
        if cfg['dde_approx']:
            yield with_key(trace, ['cfg', 'dde_approx'], 0)
        if cfg['prelude']:
            yield with_key(trace, ['cfg', 'prelude'], False)
        if spec.get('kind') == 'pop':
            for i in range(len(spec['conns'])):
                if len(spec['conns']) > 1:
                    t = copy.deepcopy(trace)
                    del t['spec']['conns'][i]
                    yield t
            return
        if spec.get('build') == 'yaml':
            yield with_key(trace, ['spec', 'build'], 'python')
        from checks.c03 import shrink_spec

        def in_domain(sp):
            # a kernel with a mean delay of at most one step is only generated next to a longer one on the same source
            # variable (alone it is neglected by the implementation, by design)
            es = models.flatten(sp)[1]
            for s_, _, a_ in es:
                if a_.get('delay') and a_['delay'] <= cfg['dt'] * (1 + 1e-9):
                    if not any(s2 == s_ and (a2.get('delay') or 0) > cfg['dt'] * (1 + 1e-9) for s2, _, a2 in es):
                        return False
            return True
        for t in shrink_spec({'spec': spec, 'cfg': {'input': None}}):
            try:
                if not in_domain(t['spec']):
                    continue
            except Exception:
                continue
            t2 = copy.deepcopy(trace)
            t2['spec'] = t['spec']
            yield t2


CHECK = C11()
