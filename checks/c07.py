"""C07 — parameter and initial-value overrides reach exactly their targets.

Seeded histories of override operations (update_var on nodes and edges with scalars, per-node arrays and wildcards;
compile-time node_values / edge_values) over circuits whose nodes share NodeTemplate / OperatorTemplate objects.
After every prefix a pristine observer compiles a snapshot of the template; RefValues (a plain dict with the documented
meaning of each op) says what every node/op/var and every edge must hold: L-reach, L-nothing-else, L-order.
"""
import copy, json, os
from sim.driver import Check, KF, digest
from sim import models
from sim.shrink import drop_chunks


def targets(flat_nodes, spec, path):
    """nodes addressed by a node path with 'all' wildcards, in PyRates' path order (declaration order)"""
    parts = path.split('/')
    out = []
    for n in flat_nodes:
        np_ = n.split('/')
        if len(np_) == len(parts) and all(p == 'all' or p == q for p, q in zip(parts, np_)):
            out.append(n)
    return out


class C07(Check):
    pid = 'C07'
    timeout = 120.0
    quick_runs = 640
    thorough_budget_s = 900
    rule = ('one run = one circuit with a seeded aliasing pattern (one OperatorTemplate in several NodeTemplates, one '
            'NodeTemplate object under several node keys / sub-circuits) and a seeded history of 1-6 override operations '
            '(update_var scalar / per-node array / wildcard on constants and initial values, update_var on edge '
            'attributes, compile with node_values / edge_values, deepcopy-and-continue); after every prefix a pristine '
            'observer compiles a snapshot (non-vectorized: args and state by frontend name, vector field at probe '
            'states; vectorized: labelled short run) and the reference dict gives the expected value of EVERY '
            'node/op/var and edge; distinct = distinct decision digest; non-trivial = >= 1 override op executed on a '
            'circuit in which at least two nodes share a template object and the observer compiled it')
    components_real = ['pyrates frontend templates (update_var, apply, update_template), IR, default backend']
    components_stubbed = ['none']
    assumptions = ['path order of wildcard targets = declaration order of sub-circuits and nodes',
                   'reference semantics of the library operators (RefNet) for vector-field and trajectory comparison']
    required_probes = {'thorough': ['array_update', 'wildcard_update', 'node_values', 'edge_update', 'shared_nt']}

    def strata(self, tier):
        return [('S-update_var', 4), ('S-apply-values', 3), ('S-edges', 2), ('S-mixed', 3), ('S-compile-between', 1), ('S-failed-compile', 2), ('S-grow-circuit', 2), ('S-conn-edges', 1), ('S-big', 1)]

    def generate(self, rng, stratum, tier):
        if stratum == 'S-conn-edges':
            # Population / Connectivity API: several connections whose (dynamic) EdgeTemplates share ONE operator template and
            # differ in its overrides; every connection must keep its own values in the compiled model
            g = lambda lo, hi: rng.randint(lo, hi) / 16
            pops = {k: {'n': rng.randint(2, 3), 'a': None, 'x0': None} for k in ['pa', 'pb'] + (['pc'] if rng.random() < 0.4 else [])}
            pool = [v for v in range(-60, 61) if v]
            rng.shuffle(pool)
            for q in pops.values():
                q['a'] = [g(4, 40) for _ in range(q['n'])]
                q['x0'] = [pool.pop() / 64 for _ in range(q['n'])]
            conns = []
            names = list(pops)
            for j in range(rng.randint(2, 3)):
                s, t = rng.choice(names), rng.choice(names)
                if any(c_['s'] == s and c_['t'] == t for c_ in conns):
                    continue        # (parallel connections between the same variables are refused by the implementation)
                conns.append({'s': s, 't': t, 'tau': g(1, 40), 'tname': rng.choice(['ea', 'eb']),
                              'W': [[g(-24, 24) if rng.random() < 0.8 else 0.0 for _ in range(pops[s]['n'])] for _ in range(pops[t]['n'])]})
            return {'mode': 'conn', 'spec': {'pops': pops, 'conns': conns}, 'ops': [],
                    'cfg': {'dt': rng.choice([1e-3, 0.01]), 'steps': rng.randint(8, 30), 'vectorize': rng.random() < 0.8}}
        spec = models.gen_aliased(rng, build=rng.choice(['python', 'python', 'yaml']), readouts=0.4 if rng.random() < 0.35 else 0.0)
        if stratum in ('S-update_var', 'S-mixed', 'S-apply-values', 'S-compile-between') and rng.random() < 0.12:
            # node templates of two structurally identical operators under different names (a second node template with the
            # same structure under other operator names): each keeps its own values
            spec = models.gen_twinops(rng)
        if stratum == 'S-big':
            # sizes toy models never reach: one vectorized group of 10-16 nodes, wired as ring / shuffled chain / fan-out /
            # converging pattern with distinct weights (below the matrix_sparseness threshold the compiler indexes instead of
            # building a weight matrix)
            spec = models.gen_big(rng)
        if spec.get('circuits') and stratum in ('S-update_var', 'S-mixed', 'S-apply-values') and rng.random() < 0.3:
            # ONE sub-circuit template used under both keys (a YAML model hands out one object): an override addressed to a node
            # of one instance must not reach the other instance
            models.make_twin_subcircuits(rng, spec)
            spec['build'] = 'yaml'
        if rng.random() < (0.7 if stratum == 'S-edges' else 0.35):
            models.add_edge_templates(rng, spec, p=0.6)
        flat_nodes, flat_edges = models.flatten(spec)
        nodes = list(flat_nodes)
        depth = 2 if spec.get('circuits') else 1
        net = models.RefNet(spec)
        ops = []
        kinds = {'S-update_var': ['one', 'all', 'arr', 'sub'], 'S-apply-values': ['nv', 'nv', 'one', 'ev'],
                 'S-edges': ['edge', 'ev', 'one', 'derive', 'edge'], 'S-compile-between': ['nv', 'ev', 'one', 'all'],
                 'S-failed-compile': ['fc', 'fc', 'one', 'one', 'all', 'sub'],
                 'S-big': ['edge', 'edge', 'one', 'all', 'ev'],
                 'S-grow-circuit': ['addn', 'all', 'all', 'arr', 'one', 'arr', 'share', 'share'],
                 'S-mixed': ['one', 'all', 'arr', 'sub', 'nv', 'ev', 'edge', 'copy', 'derive', 'adapt', 'adapt', 'fc', 'addn']}[stratum]
        derived = False
        grown = False
        depth = 2 if spec.get('circuits') else 1
        opnames = sorted({o for (_, o) in net.inst})
        if depth == 2 and stratum in ('S-edges', 'S-mixed', 'S-update_var') and rng.random() < 0.5:
            # first op: a second circuit derived from T by adding a sub-circuit (update_template(circuits=...), not in
            # place); the inherited sub-circuits must not be shared with T
            src_c = rng.choice(list(spec['circuits']))
            ops.append({'op': 'derive_circuits', 'copy_of': src_c, 'as': 'cz'})
            derived = True
        for j in range(rng.randint(1, 10 if tier == 'thorough' else 6)):
            k = rng.choice(kinds)
            opn = rng.choice(opnames)
            lib = [i['lib'] for (n, o), i in net.inst.items() if o == opn][0]
            var = rng.choice(models.LIB[lib]['const'] + models.LIB[lib]['state'])
            def val(var=var):
                # unusual but legal values on purpose: exactly 0 and negatives (not for time constants)
                if var != 'tau' and rng.random() < 0.2:
                    return 0.0
                if var != 'tau' and rng.random() < 0.15:
                    return -rng.randint(1, 40) / 16
                return rng.randint(1, 60) / 16
            have = [n for n in nodes if (n, opn) in net.inst]
            on = rng.choice(['T', 'D', 'D']) if derived else 'T'
            if k == 'derive':
                if not derived and not grown and depth == 1 and len(nodes) >= 2:
                    pairs = [(a, b) for a in nodes for b in nodes
                             if not any(e[0].startswith(a + '/') and e[1].startswith(b + '/') for e in flat_edges)]
                    if pairs:
                        a, b = rng.choice(pairs)
                        (oa, ia), (ob, ib) = [[(o, i) for (n, o), i in net.inst.items() if n == x][0] for x in (a, b)]
                        ops.append({'op': 'derive', 'edge': [f"{a}/{oa}/{models.LIB[ia['lib']]['out']}",
                                                             f"{b}/{ob}/{models.LIB[ib['lib']]['in']}",
                                                             {'weight': rng.randint(-40, 40) / 16 or 0.5}]})
                        derived = True
                        te = [e for e in (spec.get('edges') or []) if e[2].get('et') and e[2].get('kk') is None]
                        if te and rng.random() < 0.7:
                            # the derived circuit's EdgeTemplate OBJECT (reached through get_edge) is edited: the circuit it was
                            # derived from keeps its own
                            e_ = rng.choice(te)
                            ops.append({'op': 'edit_edge_template', 'edge': [e_[0], e_[1]], 'et': e_[2]['et'],
                                        'val': rng.randint(2, 40) / 16})
            elif k == 'adapt' and grown:
                continue
            elif k == 'adapt':
                ops.append({'op': 'adapt', 'by_path': rng.random() < 0.6, 'node': rng.choice(have), 'opn': opn, 'var': var,
                            'val': val(), 'on': on})
                if rng.random() < 0.6:
                    # a parameter sweep (grid_search) over the same parameter, its grid a DataFrame with row labels in any order
                    ops[-1]['grid'] = {'labels': rng.sample(range(0, 6), 3), 'vals': [val(), val() + 0.5, val() + 1.25]}
            elif k == 'one':
                ops.append({'op': 'update_var', 'on': on, 'node_vars': {f'{rng.choice(have)}/{opn}/{var}': val()}})
            elif k in ('all', 'arr'):
                path = '/'.join(['all'] * depth)
                tg = [n for n in targets(nodes, spec, path) if (n, opn) in net.inst]
                v = [val() for _ in tg] if (k == 'arr' and len(tg) > 1) else val()
                ops.append({'op': 'update_var', 'node_vars': {f'{path}/{opn}/{var}': v}})
            elif k == 'sub':
                if depth == 2:
                    cn = rng.choice(list(spec['circuits']))
                    tg = [n for n in targets(nodes, spec, f'{cn}/all') if (n, opn) in net.inst]
                    if tg:
                        v = [val() for _ in tg] if (rng.random() < 0.5 and len(tg) > 1) else val()
                        ops.append({'op': 'update_var', 'node_vars': {f'{cn}/all/{opn}/{var}': v}})
            elif k == 'nv':
                nv = {}
                n_first = rng.choice(have)
                allv = models.LIB[lib]['const'] + models.LIB[lib]['state']
                if len(allv) >= 2 and rng.random() < 0.4:
                    # two values for two variables of ONE operator of one node in the same call
                    v1, v2 = rng.sample(allv, 2)
                    nv[f'{n_first}/{opn}/{v1}'] = val(v1)
                    nv[f'{n_first}/{opn}/{v2}'] = val(v2)
                for _ in range(rng.randint(1, 2)):
                    if nv:
                        break
                    if rng.random() < 0.7:
                        nv[f'{rng.choice(have)}/{opn}/{var}'] = val()
                    else:
                        # a wildcard in node_values addresses every node of that level and (documented) raises if one
                        # of them lacks the operator: only generated when all nodes carry it
                        path = '/'.join(['all'] * depth)
                        tg = [n for n in targets(nodes, spec, path) if (n, opn) in net.inst]
                        if len(tg) == len(nodes):
                            nv[f'{path}/{opn}/{var}'] = [val() for _ in tg] if len(tg) > 1 and rng.random() < 0.5 else val()
                        else:
                            nv[f'{rng.choice(have)}/{opn}/{var}'] = val()
                ops.append({'op': 'compile_values', 'node_values': nv, 'edge_values': [],
                            'vectorize': rng.random() < 0.4, 'on_copy': stratum != 'S-compile-between'})
            elif k == 'ev':
                if flat_edges:
                    e = rng.choice(flat_edges)
                    ops.append({'op': 'compile_values', 'node_values': {}, 'vectorize': False,
                                'on_copy': stratum != 'S-compile-between',
                                'edge_values': [[e[0], e[1], {'weight': rng.randint(-40, 40) / 16 or 0.5}]]})
            elif k == 'edge':
                top = spec.get('edges') or []
                if top:
                    e = rng.choice(top)
                    ops.append({'op': 'update_var', 'on': on, 'node_vars': {},
                                'edge_vars': [[e[0], e[1], {'weight': rng.randint(-40, 40) / 16 or 0.5}]]})
            elif k == 'copy':
                ops.append({'op': 'deepcopy_continue'})
            elif k == 'share':
                # node b adopts the (possibly customised) template object of node a through the public add_node_template;
                # afterwards each of the two is customised on its own
                if depth == 1 and not derived:
                    opsof = lambda n_: tuple(sorted(o for (m_, o) in net.inst if m_ == n_))
                    pairs_ = [(a_, b_) for a_ in nodes for b_ in nodes if a_ != b_ and opsof(a_) == opsof(b_)]
                    if pairs_:
                        a_, b_ = rng.choice(pairs_)
                        (la, lo), li = rng.choice([(key, i_) for key, i_ in net.inst.items() if key[0] == a_])
                        lv = rng.choice(models.LIB[li['lib']]['const'] + models.LIB[li['lib']]['state'])
                        ops.append({'op': 'update_var', 'on': 'T', 'node_vars': {f'{a_}/{lo}/{lv}': rng.randint(1, 60) / 16}})
                        ops.append({'op': 'share_template', 'src': a_, 'dst': b_})
                        lv2 = rng.choice(models.LIB[li['lib']]['const'] + models.LIB[li['lib']]['state'])
                        ops.append({'op': 'update_var', 'on': 'T', 'node_vars': {f'{rng.choice([a_, b_])}/{lo}/{lv2}': rng.randint(1, 60) / 16}})
                        grown = True
            elif k == 'addn':
                # the circuit grows IN PLACE: a further node carrying the node template of an existing node (as it is now);
                # wildcard overrides issued afterwards address the new node too, earlier ones did not
                if depth == 1 and not derived and not any(o['op'] in ('derive', 'derive_circuits') for o in ops) and len(nodes) < 7:
                    like = rng.choice(nodes)
                    new = f'zn{j}'
                    if rng.random() < 0.5:
                        # the node whose template is re-used has been customised before (it carries its own template copy)
                        (ln0, lo0), li0 = rng.choice([(key, i_) for key, i_ in net.inst.items() if key[0] == like])
                        lv0 = rng.choice(models.LIB[li0['lib']]['const'] + models.LIB[li0['lib']]['state'])
                        ops.append({'op': 'update_var', 'on': 'T', 'node_vars': {f'{like}/{lo0}/{lv0}': rng.randint(1, 60) / 16}})
                    ops.append({'op': 'add_node', 'like': like, 'name': new})
                    if rng.random() < 0.5:
                        # the new node's template is DERIVED from the existing node's (NodeTemplate.update_template) and gets
                        # an override of its own through NodeTemplate.update_var: the node it was derived from keeps its value
                        (ln, lo), li = rng.choice([(key, i_) for key, i_ in net.inst.items() if key[0] == like])
                        lvar = rng.choice(models.LIB[li['lib']]['const'] + models.LIB[li['lib']]['state'])
                        ops[-1]['derive'] = {'opn': lo, 'var': lvar, 'val': rng.randint(1, 60) / 16}
                    net.clone_node(like, new)
                    flat_nodes[new] = flat_nodes[like]
                    nodes.append(new)
                    grown = True
                    if rng.random() < 0.6:
                        # ... and the node that was added (it carries the template object of `like`) - or `like` itself - gets a
                        # value of its own right away: the other one keeps its value
                        (ln2, lo2), li2 = rng.choice([(key, i_) for key, i_ in net.inst.items() if key[0] == new])
                        lv2 = rng.choice(models.LIB[li2['lib']]['const'] + models.LIB[li2['lib']]['state'])
                        ops.append({'op': 'update_var', 'on': 'T', 'node_vars': {f'{rng.choice([new, like])}/{lo2}/{lv2}': rng.randint(1, 60) / 16}})
            elif k == 'fc':
                # a compile of T itself (not in place) that FAILS inside code generation: disk error while the source file is
                # written, or an interruption at an arbitrary internal call.  It must leave nothing behind that outlives it:
                # later overrides still reach the compiled model
                if rng.random() < 0.6:
                    f = {'kind': 'io', 'target': 'src_write', 'nth': 1, 'errno': rng.choice(['ENOSPC', 'EIO', 'EACCES']),
                         'short': rng.random() < 0.4}
                else:
                    f = {'kind': 'intr', 'at_call': rng.randint(200, 2500)}
                ops.append({'op': 'failed_compile', 'fault': f, 'vectorize': rng.random() < 0.4})
        if not ops:
            n0, o0 = next(iter(net.inst))
            ops.append({'op': 'update_var', 'node_vars': {f'{n0}/{o0}/{models.LIB[net.inst[(n0, o0)]["lib"]]["state"][0]}': 1.5}})
        return {'spec': spec, 'ops': ops}

    # ---------------------------------------------------------------------------------------------------
    @staticmethod
    def _apply_ref(net, flat_nodes, spec, node_vars):
        for key, v in node_vars.items():
            *node, opn, var = key.split('/')
            tg = [n for n in targets(list(flat_nodes), spec, '/'.join(node)) if (n, opn) in net.inst
                  and (var in net.inst[(n, opn)]['p'] or var in net.inst[(n, opn)]['s0'])]
            for i, n in enumerate(tg):
                val = v[i] if isinstance(v, list) and len(v) == len(tg) else v
                net.set_value(n, opn, var, float(val))

    @staticmethod
    def _set_edge(net, src, tgt, attrs):
        for e in net.edges:
            if e[0] == src and e[1] == tgt:
                e[2].update(attrs)
                return True
        return False

    @staticmethod
    def _grid_sweep(src, op, ref, bump):
        """grid_search over a labelled grid: the circuit reported under label l (param map and result columns) is the one
        parametrised with the grid's row l - compared with adapt_circuit(row l) simulated on its own"""
        import numpy as np, pandas as pd
        from pyrates import grid_search
        from pyrates.utility import adapt_circuit
        lib = ref.inst[(op['node'], op['opn'])]['lib']
        out = f"{op['node']}/{op['opn']}/{models.LIB[lib]['state'][0]}"
        pmap = {'k0': {'vars': [f"{op['opn']}/{op['var']}"], 'nodes': [op['node']]}}
        labels, vals = list(op['grid']['labels']), [float(v) for v in op['grid']['vals']]
        sim = dict(step_size=1e-3, simulation_time=6e-3, outputs={'o': out}, verbose=False)
        try:
            R, pm = grid_search(src, pd.DataFrame({'k0': vals}, index=labels), pmap, **sim)
        except Exception as e:
            # (adapt_circuit on the same source and parameter has just succeeded: the sweep over it has no reason to refuse)
            bump('grid_refused')
            return {'law': 'L-op', 'cls': 'loud', 'key': 'grid_search',
                    'detail': f'grid_search over {op["node"]}/{op["opn"]}/{op["var"]} with grid rows {dict(zip(labels, vals))} raised '
                              f'{type(e).__name__}: {str(e)[:160]}'}
        bump('grid_sweep')
        for l, v in zip(labels, vals):
            rows = [i for i in pm.index if str(i).endswith(f'_{l}')]
            cols = [c_ for c_ in R.columns if str(c_[1]).endswith(f'_{l}')]
            if len(rows) != 1 or not cols:
                bump('grid_unreadable')
                return None
            if float(pm.loc[rows[0], 'k0']) != v:
                return {'law': 'L-reach', 'cls': 'silent', 'key': 'grid-map',
                        'detail': f'grid_search: parameter map lists {pm.loc[rows[0], "k0"]!r} for {rows[0]}, grid row {l} holds {v}'}
            try:
                D = adapt_circuit(src, {'k0': v}, pmap).run(**sim)
            except Exception:
                bump('grid_unreadable')
                return None
            a, b = np.asarray(R[cols].values, dtype=float), np.asarray(D.values, dtype=float)
            if a.shape != b.shape:
                bump('grid_unreadable')
                return None
            if not np.allclose(a, b, rtol=1e-9, atol=1e-12):
                return {'law': 'L-reach', 'cls': 'silent', 'key': 'grid-row',
                        'detail': f'grid_search over {op["node"]}/{op["opn"]}/{op["var"]} with grid rows {dict(zip(labels, vals))}: '
                                  f'circuit {rows[0]} evolves as {a[:3].ravel().tolist()}, the circuit adapted to row {l} '
                                  f'(value {v}) on its own as {b[:3].ravel().tolist()}'}
        return None

    def execute(self, trace):
        import warnings
        warnings.filterwarnings('ignore')
        import numpy as np
        if trace.get('mode') == 'conn':
            return self._execute_conn(trace, np)
        from sim.observer import Observer, snapshot
        from sim.world import World
        from sim import observe
        spec, ops = trace['spec'], trace['ops']
        res = {'violations': [], 'digest': digest([spec, ops]), 'nontrivial': False, 'probes': {}, 'faults': {},
               'stats': {'ops': len(ops)}}
        P = res['probes']

        def bump(k):
            P[k] = P.get(k, 0) + 1
        obsv = Observer(os.path.join(os.getcwd(), '_observer'))
        w = World()
        o = w.do({'op': 'construct', 'obj': 'T', 'spec': spec, 'fname': 'm_T'})
        if o['status'] != 'ok':
            obsv.abort()
            res['discard'] = f"construction failed: {o.get('exc')}: {o.get('msg')}"
            return res
        flat_nodes, _ = models.flatten(spec)
        if len(set(flat_nodes.values())) < len(flat_nodes):
            bump('shared_nt')
        ref = models.RefNet(copy.deepcopy(spec))
        refs = {'T': ref}
        flatD = [None]
        expected = []     # per observation: (label, RefNet)
        obsv.submit(snapshot(w.objs['T']), 'obs_both')
        expected.append(('construction', copy.deepcopy(ref), None))
        n_over = 0
        for k, op in enumerate(ops):
            if op['op'] == 'update_var':
                on = op.get('on', 'T') if op.get('on', 'T') in w.objs else 'T'
                rf = refs[on]
                nv = op.get('node_vars') or {}
                out = w.do({'op': 'update_var', 'obj': on, 'node_vars': nv, 'edge_vars': op.get('edge_vars') or []})
                if out['status'] != 'ok':
                    res['violations'].append({'law': 'L-op', 'cls': 'loud', 'key': 'update_var',
                                              'detail': f'op #{k} update_var({json.dumps(op)[:200]}) raised {out.get("exc")}: {out.get("msg")}'})
                    break
                self._apply_ref(rf, flatD[0] if (on == 'D' and flatD[0]) else flat_nodes, spec, nv)
                for s, t, a in op.get('edge_vars') or []:
                    self._set_edge(rf, s, t, a)
                    bump('edge_update')
                for key, v in nv.items():
                    bump('array_update' if isinstance(v, list) else ('wildcard_update' if 'all' in key.split('/') else 'single_update'))
                n_over += 1
                # every live circuit is observed: an override on one must not show up on the other
                for name_, rf_ in refs.items():
                    obsv.submit(snapshot(w.objs[name_]), 'obs_both')
                    expected.append((f'after op #{k} update_var on {on}: circuit {name_}', copy.deepcopy(rf_), None))
            elif op['op'] == 'derive':
                # a second circuit derived from T by adding an edge (update_template, not in place)
                s_, t_, a_ = op['edge']
                try:
                    w.objs['D'] = w.objs['T'].update_template(name='derived', edges=[(s_, t_, None, dict(a_))])
                except Exception as e:
                    res['violations'].append({'law': 'L-op', 'cls': 'loud', 'key': 'derive',
                                              'detail': f'op #{k} update_template(edges=[...]) raised {type(e).__name__}: {e}'})
                    break
                refs['D'] = copy.deepcopy(refs['T'])
                refs['D'].edges.append([s_, t_, dict(a_)])
                bump('derive')
                for name_, rf_ in refs.items():
                    obsv.submit(snapshot(w.objs[name_]), 'obs_both')
                    expected.append((f'after op #{k} derive: circuit {name_}', copy.deepcopy(rf_), None))
            elif op['op'] == 'edit_edge_template':
                if 'D' not in w.objs:
                    continue
                et_ = spec['ets'][op['et']]
                try:
                    tmpl = w.objs['D'].get_edge(op['edge'][0], op['edge'][1])[2]
                    tmpl.update_var(et_['opname'], 'kk', op['val'])
                except Exception as e:
                    res['violations'].append({'law': 'L-op', 'cls': 'loud', 'key': 'edit_edge_template',
                                              'detail': f'op #{k} get_edge(...)[2].update_var raised {type(e).__name__}: {e}'})
                    break
                refs['D'].spec['ets'][op['et']]['kk'] = op['val']
                bump('edit_edge_template')
                n_over += 1
                for name_, rf_ in refs.items():
                    obsv.submit(snapshot(w.objs[name_]), 'obs_both')
                    expected.append((f'after op #{k} edit of the derived circuit\'s edge template {op["et"]}: circuit {name_}',
                                     copy.deepcopy(rf_), None))
            elif op['op'] == 'derive_circuits':
                specD = copy.deepcopy(spec)
                specD['circuits'][op['as']] = copy.deepcopy(spec['circuits'][op['copy_of']])
                try:
                    newc = copy.deepcopy(w.objs['T'].circuits[op['copy_of']])
                    w.objs['D'] = w.objs['T'].update_template(name='derived', circuits={op['as']: newc})
                except Exception as e:
                    res['violations'].append({'law': 'L-op', 'cls': 'loud', 'key': 'derive',
                                              'detail': f'op #{k} update_template(circuits=...) raised {type(e).__name__}: {e}'})
                    break
                refs['D'] = models.RefNet(specD)
                flatD[0] = models.flatten(specD)[0]
                bump('derive_circuits')
                for name_, rf_ in refs.items():
                    obsv.submit(snapshot(w.objs[name_]), 'obs_both')
                    expected.append((f'after op #{k} derive (circuits): circuit {name_}', copy.deepcopy(rf_), None))
            elif op['op'] == 'adapt':
                # pyrates.utility.adapt_circuit returns an updated COPY; the circuit it was given (an object, or the
                # template cached under a YAML path) must stay as it was
                from pyrates.utility import adapt_circuit
                on = op.get('on', 'T') if op.get('on', 'T') in w.objs else 'T'
                src = w.objs[on]
                if op.get('by_path') and spec.get('build') == 'yaml' and on == 'T':
                    src = f"m_T/{spec['name']}"
                    bump('adapt_by_path')
                if (op['node'], op['opn']) not in refs[on].inst:
                    continue
                try:
                    A = adapt_circuit(src, {'k0': op['val']}, {'k0': {'vars': [f"{op['opn']}/{op['var']}"], 'nodes': [op['node']]}})
                except Exception as e:
                    res['violations'].append({'law': 'L-op', 'cls': 'loud', 'key': 'adapt_circuit',
                                              'detail': f'op #{k} adapt_circuit raised {type(e).__name__}: {e}'})
                    break
                bump('adapt')
                if op.get('grid'):
                    v_ = self._grid_sweep(src, op, refs[on], bump)
                    if v_:
                        res['violations'].append(v_)
                        break
                n_over += 1
                tmp = copy.deepcopy(refs[on])
                tmp.set_value(op['node'], op['opn'], op['var'], float(op['val']))
                obsv.submit(snapshot(A), 'obs_both')
                expected.append((f'op #{k} adapt_circuit result', tmp, None))
                for name_, rf_ in refs.items():
                    obsv.submit(snapshot(w.objs[name_]), 'obs_both')
                    expected.append((f'after op #{k} adapt_circuit (source must be unchanged): circuit {name_}',
                                     copy.deepcopy(rf_), None))
            elif op['op'] == 'share_template':
                try:
                    T_ = w.objs['T']
                    T_.add_node_template(op['dst'], T_.get_node_template(op['src']))
                except Exception as e:
                    res['violations'].append({'law': 'L-op', 'cls': 'loud', 'key': 'add_node_template',
                                              'detail': f'op #{k} add_node_template raised {type(e).__name__}: {e}'})
                    break
                for (n_, o_), i_ in list(ref.inst.items()):
                    if n_ == op['src']:
                        keep_reads = ref.inst[(op['dst'], o_)].get('reads')
                        ref.inst[(op['dst'], o_)] = copy.deepcopy(i_)
                        if keep_reads:
                            ref.inst[(op['dst'], o_)]['reads'] = keep_reads
                bump('share_template')
                obsv.submit(snapshot(w.objs['T']), 'obs_both')
                expected.append((f'after op #{k} add_node_template({op["dst"]} <- template of {op["src"]})', copy.deepcopy(ref), None))
            elif op['op'] == 'add_node':
                try:
                    T_ = w.objs['T']
                    nt_ = T_.nodes[op['like']]
                    if op.get('derive'):
                        nt_ = nt_.update_template(name=f'{nt_.name}_d{k}')
                        nt_.update_var(op['derive']['opn'], op['derive']['var'], op['derive']['val'])
                        bump('derived_node_template')
                    T_.update_template(nodes={op['name']: nt_}, in_place=True)
                except Exception as e:
                    res['violations'].append({'law': 'L-op', 'cls': 'loud', 'key': 'add_node',
                                              'detail': f'op #{k} update_template(nodes=..., in_place=True) raised {type(e).__name__}: {e}'})
                    break
                ref.clone_node(op['like'], op['name'])
                if op.get('derive'):
                    ref.set_value(op['name'], op['derive']['opn'], op['derive']['var'], float(op['derive']['val']))
                flat_nodes[op['name']] = flat_nodes[op['like']]
                bump('add_node')
                obsv.submit(snapshot(w.objs['T']), 'obs_both')
                expected.append((f'after op #{k} add_node {op["name"]} (like {op["like"]})', copy.deepcopy(ref), None))
            elif op['op'] == 'failed_compile':
                kw = {'in_place': False, 'vectorize': op['vectorize'], 'clear': True, 'float_precision': 'float64'}
                out = w.do({'op': 'compile', 'obj': 'T', 'api': 'get_run_func', 'kw': kw, 'fault': op['fault']})
                fired = sum(w.fired.values())
                res['faults'] = dict(w.fired)
                if out['status'] == 'ok':
                    # the fault point lay beyond the end of the compile: it succeeded, which is KF-C07's precondition
                    # (stale state after a SUCCESSFUL compile on the template itself) - stop the history here
                    bump('fault_beyond_compile')
                    break
                if op['fault']['kind'] == 'intr' and getattr(w.objs['T'], 'state', None):
                    # the interruption came AFTER the compile had stored its state vector on the template (its position
                    # is arbitrary): that is KF-C07's precondition, like a completed compile - stop the history here.
                    # (a disk error while the source file is written lies before that point and is followed up)
                    bump('interrupted_after_state_was_stored')
                    break
                bump('failed_compile')
                obsv.submit(snapshot(w.objs['T']), 'obs_both')
                expected.append((f'after op #{k} (a compile that failed: {op["fault"]["kind"]})', copy.deepcopy(ref), None))
            elif op['op'] == 'deepcopy_continue':
                if spec.get('build') != 'yaml':      # (a YAML-loaded T stays the path-cached object for adapt-by-path)
                    w.objs['T'] = copy.deepcopy(w.objs['T'])
            elif op['op'] == 'compile_values':
                tmp = copy.deepcopy(ref)
                self._apply_ref(tmp, flat_nodes, spec, op['node_values'])
                for s, t, a in op['edge_values']:
                    self._set_edge(tmp, s, t, a)
                kw = {'in_place': False, 'vectorize': False, 'clear': True, 'float_precision': 'float64'}
                if op['node_values']:
                    kw['node_values'] = {p: (np.asarray(v) if isinstance(v, list) else v) for p, v in op['node_values'].items()}
                    bump('node_values')
                if op['edge_values']:
                    kw['edge_values'] = {(s, t): dict(a) for s, t, a in op['edge_values']}
                    bump('edge_values')
                # the compile runs on a harness-made deep copy unless the stratum asks for the template itself: run
                # bookkeeping left on a template by in_place=False compiles is C14's subject (KF-C14-stale-run-bookkeeping)
                target = 'T'
                if op.get('on_copy', True):
                    w.objs['Tc'] = copy.deepcopy(w.objs['T'])
                    target = 'Tc'
                out = w.do({'op': 'compile', 'obj': target, 'api': 'get_run_func', 'kw': kw})
                n_over += 1
                # (i) the compile with ephemeral values itself; (ii) the template afterwards is unchanged
                expected.append((f'op #{k} compile with node_values/edge_values', tmp, out))
                obsv.submit(snapshot(w.objs['T']), 'obs_both')
                expected.append((f'after op #{k} (values passed to a compile are not persistent)', copy.deepcopy(ref), None))
        snaps = obsv.collect()
        # pair observations with expectations
        si = 0
        compiled_ok = False
        for label, net, inproc in expected:
            if inproc is not None:
                obs = {'scalar': inproc}
            else:
                obs = snaps[si]
                si += 1
            v = self._judge(label, net, obs, np)
            if obs.get('scalar', {}).get('status') == 'ok':
                compiled_ok = True
            if v:
                res['violations'].append(v)
                break
        res['nontrivial'] = n_over >= 1 and compiled_ok and (len(set(flat_nodes.values())) < len(flat_nodes) or bool(spec.get('big_kind')))
        return res

    def _execute_conn(self, trace, np):
        from pyrates import CircuitTemplate, NodeTemplate, OperatorTemplate, EdgeTemplate
        from pyrates.frontend.template.population import PopulationTemplate, Connectivity
        spec, cfg = trace['spec'], trace['cfg']
        res = {'violations': [], 'digest': digest([spec, cfg]), 'nontrivial': False, 'probes': {'conn_edges': 1}, 'faults': {},
               'stats': {}}
        op = OperatorTemplate(name='lin', equations=["x' = -a*x + u"], variables={'x': 'output(0.0)', 'a': 1.0, 'u': 'input(0.0)'})
        nd = NodeTemplate(name='n', operators=[op])
        eop = OperatorTemplate(name='lp_op', equations=["v' = (-v + r_pre) / tau_u", 's = v'],
                               variables={'v': 0.0, 'r_pre': 'input', 'tau_u': 0.1, 's': 'output'})
        def mk():
            pops_ = {k: PopulationTemplate(name=k, node=nd, n=q['n'], params={'lin/a': list(q['a']), 'lin/x': list(q['x0'])})
                     for k, q in spec['pops'].items()}
            conns_ = [Connectivity(f"{c['s']}/lin/x", f"{c['t']}/lin/u", np.array(c['W']),
                                   edge=EdgeTemplate(name=f"{c['tname']}{j}", operators={eop: {'tau_u': c['tau']}}),
                                   edge_var_map={'r_pre': 'source'}) for j, c in enumerate(spec['conns'])]
            return CircuitTemplate(name='c', populations=pops_, connections=conns_)
        pops = spec['pops']
        dt, steps = cfg['dt'], cfg['steps']
        try:
            # (two circuit objects over the same operator templates: run() after get_run_func(in_place=False) on ONE
            # template is KF-C14-stale-run-bookkeeping's subject)
            f, args, names, smap = mk().get_run_func('vf', dt, vectorize=cfg['vectorize'], verbose=False, float_precision='float64',
                                                     in_place=False, clear=True)
            R = mk().run(steps * dt, dt, outputs={k: f'{k}/lin/x' for k in pops}, solver='euler', vectorize=cfg['vectorize'],
                         verbose=False, float_precision='float64')
        except Exception as e:
            res['discard'] = f'model refused: {type(e).__name__}: {str(e)[:60]}'
            return res
        # (1) every connection's override is an argument value of the compiled function
        taus = sorted(float(np.asarray(a).reshape(-1)[0]) for n_, a in zip(names, args) if 'tau_u' in str(n_))
        want = sorted(c['tau'] for c in spec['conns'])
        if taus != want:
            res['violations'].append({'law': 'L-reach', 'cls': 'silent', 'key': 'connectivity-edge-override',
                                      'detail': f'edge time constants of the compiled function are {taus}, the connections declare {want}'})
            return res
        # (2) trajectory against an explicit Euler loop (per-pair edge states)
        x = {k: np.array(q['x0'], dtype=float) for k, q in spec['pops'].items()}
        U = [np.zeros((spec['pops'][c['t']]['n'], spec['pops'][c['s']]['n'])) for c in spec['conns']]
        rows = []
        for k_ in range(steps):
            rows.append({k: v.copy() for k, v in x.items()})
            u_in = {k: np.zeros(q['n']) for k, q in spec['pops'].items()}
            for c, Uc in zip(spec['conns'], U):
                u_in[c['t']] += (np.array(c['W']) * Uc).sum(axis=1)
            dx = {k: -np.array(spec['pops'][k]['a']) * x[k] + u_in[k] for k in x}
            dU = [(-Uc + x[c['s']][None, :]) / c['tau'] for c, Uc in zip(spec['conns'], U)]
            x = {k: x[k] + dt * dx[k] for k in x}
            U = [Uc + dt * d for Uc, d in zip(U, dU)]
        for col in R.columns:
            key, i = (col if isinstance(col, tuple) else (col, 0))
            g = np.asarray(R[col].values, dtype=float)
            for r_ in range(min(len(g), steps)):
                w_ = rows[r_][key][int(i)]
                if abs(g[r_] - w_) > 1e-9 * max(1.0, abs(w_)):
                    res['violations'].append({'law': 'L-reach', 'cls': 'silent', 'key': 'connectivity-edge-run',
                                              'detail': f'unit {key}[{i}] row {r_}: run {g[r_]!r}, explicit loop with every connection\'s own '
                                                        f'edge constant {w_!r}; connections {[(c["s"], c["t"], c["tau"]) for c in spec["conns"]]}'})
                    return res
        res['nontrivial'] = True
        return res

    @staticmethod
    def _judge(label, net, obs, np):
        from sim import observe
        sc = obs.get('scalar', {})
        params, y0 = net.params(), net.y0()
        if sc.get('status') == 'ok':
            for name, want in params.items():
                got = sc['args'].get(name)
                if got is None:
                    return {'law': 'L-reach', 'cls': 'silent', 'key': 'missing-arg',
                            'detail': f'{label}: compiled function has no argument {name}; args: {sorted(sc["args"])[:12]}'}
                if len(got['v']) != 1 or got['v'][0] != want:
                    return {'law': 'L-reach', 'cls': 'silent', 'key': 'parameter',
                            'detail': f'{label}: {name} = {got["v"]}, expected {want}'}
            for name, want in y0.items():
                p = sc['state'].get(name)
                if not isinstance(p, int):
                    return {'law': 'L-reach', 'cls': 'silent', 'key': 'state-map', 'detail': f'{label}: no scalar state slot for {name}: {p}'}
                if sc['y0'][p] != want:
                    return {'law': 'L-reach', 'cls': 'silent', 'key': 'initial-value',
                            'detail': f'{label}: initial value of {name} = {sc["y0"][p]}, expected {want}'}
            # vector field at the probe states: every edge weight and parameter enters here
            y0v = np.array(sc['y0'])
            for k, (yp, vf) in enumerate(zip(observe.probe_states(y0v), sc['vf'])):
                if isinstance(vf, dict):
                    continue
                named = {n: float(yp[sc['state'][n]]) for n in y0}
                want = net.rhs(named)
                for n in y0:
                    g = vf[sc['state'][n]]
                    if abs(g - want[n]) > 1e-9 * max(1.0, abs(want[n])):
                        return {'law': 'L-reach', 'cls': 'silent', 'key': 'vector-field',
                                'detail': f'{label}: d{n}/dt at probe state {k} = {g}, reference {want[n]} (edge weights / '
                                          f'parameters as the reference dict holds them)'}
        elif sc.get('status') == 'raised' and 'compile with' in label:
            return {'law': 'L-op', 'cls': 'loud', 'key': 'compile_values',
                    'detail': f'{label} raised {sc.get("exc")}: {sc.get("msg")}'}
        vr = obs.get('vec_run', {})
        if vr.get('status') == 'raised' and sc.get('status') == 'ok':
            # the same model compiles node by node but its vectorized run raises
            return {'law': 'L-op', 'cls': 'loud', 'key': 'vectorized-run-raised',
                    'detail': f'{label}: the non-vectorized compile succeeded, the vectorized run raised {vr.get("exc")}: {vr.get("msg")}'}
        if vr.get('status') == 'ok' and sc.get('status') == 'ok':
            traj = models.ref_euler(net, 1e-3, 5)
            for name, col in zip(vr['columns'], vr['values']):
                for j, g in enumerate(col):
                    wv = traj[j][name]
                    if abs(g - wv) > 1e-9 * max(1.0, abs(wv)):
                        return {'law': 'L-reach', 'cls': 'silent', 'key': 'vectorized-run',
                                'detail': f'{label}: vectorized run, {name} row {j} = {g}, reference {wv}'}
        return None

    def shrink(self, trace):
        for cand in drop_chunks(list(trace['ops']), min_len=1):
            t = copy.deepcopy(trace)
            t['ops'] = cand
            yield t
        if trace['spec'].get('build') == 'yaml':
            t = copy.deepcopy(trace)
            t['spec']['build'] = 'python'
            yield t
        for i, o in enumerate(trace['ops']):
            nv = o.get('node_vars') or o.get('node_values') or {}
            if len(nv) > 1:
                for key in nv:
                    t = copy.deepcopy(trace)
                    d = t['ops'][i].get('node_vars') or t['ops'][i].get('node_values')
                    del d[key]
                    yield t


    def known(self):
        def stale_state(trace, v):
            # an initial value differs and an earlier compile ran on the template itself (leaving its state vector there)
            if v.get('key') != 'initial-value':
                return False
            n = sum(1 for o in trace['ops'] if o['op'] == 'compile_values' and not o.get('on_copy', True))
            return n >= 1 and len(trace['ops']) >= 2

        def ablate(t):
            for o in t['ops']:
                if o['op'] == 'compile_values':
                    o['on_copy'] = True
            return t
        return [KF('KF-C07-stale-state-overrides-initial-value', stale_state, ablate)]


CHECK = C07()
