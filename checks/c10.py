"""C10 — delayed terms read the true past of the trajectory.

(a) function level: a hand-made history H(s)[i] = 100*(i+1) + s (affine in s, distinct per component) is handed to the
    compiled function; from the derivative one decodes which component was read at which time (L-comp, L-query).
(b) run level: a recording subclass of the real DDEHistory is installed at the module-attribute seam; its updates and
    queries and the recorded RHS calls are checked (L-feed, L-pre, L-post) and the trajectory is compared with a
    method-of-steps replica (Euler: exact arithmetic; scipy: fine fixed-step reference, calibrated absolute bound).
"""
import copy, json, bisect
import scipy.integrate  # noqa
from sim.driver import Check, KF, digest
from sim import models
from sim.shrink import with_key


def set_taus(rng, spec, dt, steps):
    for nt in spec['nts'].values():
        for opk, var in nt['var'].items():
            if spec['ops'][opk]['lib'] in ('dd', 'ddt', 'cdd'):
                n = rng.randint(2, max(3, steps // 3))
                var['tau'] = (n + rng.choice([0.0, 0.0, rng.uniform(-0.4, 0.4)])) * dt
                if rng.random() < 0.07:
                    var['tau'] = 0.0        # boundary: a delay parameter that is exactly 0 when the model is compiled
                var['a'] = rng.randint(4, 40) / 16
                if spec['ops'][opk]['lib'] != 'cdd':
                    var['c'] = rng.randint(-8, 8) / 16


class C10(Check):
    pid = 'C10'
    timeout = 120.0
    quick_runs = 900
    thorough_budget_s = 900
    rule = ('one run = one seeded circuit with delayed self-coupling operators (past(x,tau) and x(t-tau) notation, one '
            'delay per operator, several operators/nodes) and/or delayed edges under an adaptive solver; function level: '
            'the compiled function is evaluated with a hand-made decodable history at seeded (t, y); run level: '
            'run(euler|heun|scipy) with a recording DDEHistory subclass and an RHS spy; distinct = distinct decision '
            'digest; non-trivial = the model compiled, at least one delayed term/edge was exercised and (run level) the '
            'simulated time exceeded the smallest delay')
    components_real = ['pyrates parser (past / x(t-tau)), ComputeGraph.to_func (hist wiring), BaseBackend.add_var_hist, '
                       '_solve_euler/_solve_heun/_solve_scipy_dde, DDEHistory', 'scipy.integrate.ode(dopri5)']
    components_stubbed = ['function level: the history callable is the harness\'s affine fake (that is the point of the '
                          'law); run level: none, the recording subclass delegates to the real DDEHistory']
    assumptions = ['fine fixed-step RK4 (h = dt/40) with linear history is the reference for adaptive runs; bound '
                   '2e-3*max|y| (calibrated: dopri5 defaults + linear history interpolation give ~3.5e-5)']
    required_probes = {'thorough': ['func_level', 'run_euler', 'run_scipy', 'delayed_edge_dde', 'past_notation', 't_minus_notation']}
    max_discard = 0.7

    def strata(self, tier):
        return [('S-func', 4), ('S-run-euler', 4), ('S-run-scipy', 2), ('S-edges', 2), ('S-edges-vec', 1), ('S-torch', 1), ('S-edges-run', 2)]

    def prepare_parent(self):
        try:
            import torch  # noqa: once, in the parent
        except Exception:
            pass

    def generate(self, rng, stratum, tier):
        # step sizes incl. ones that are not short decimal fractions (the step size is printed into the generated source)
        dt = rng.choice([1e-3, 0.01, 0.02, 1e-3, 0.01, 6.25e-5, 0.000244140625, 1.234567e-3, 3.3e-7])
        # rows are stored every m-th step: the history must still be fed at every solver step with that step's time
        m = rng.choice([1, 1, 2, 4, 5])
        steps = m * rng.randint(max(2, 20 // m), 80 // m)
        edges_mode = stratum in ('S-edges', 'S-edges-vec', 'S-edges-run')      # S-edges-run: delayed edges, adaptive solver, run()
        mixed = stratum == 'S-edges' and rng.random() < 0.35      # delayed edges AND in-operator delays on the same source
        libs = (('dd', 'lin') if mixed else ('lin', 'leak', 'integ')) if edges_mode else rng.choice([('dd',), ('ddt',), ('dd', 'lin'), ('ddt', 'dd', 'lin'),
                                                                         ('cdd',)])

        def delays(r):
            if edges_mode and r.random() < 0.7:
                return {'delay': (r.randint(2, 12) + r.uniform(-0.4, 0.4)) * dt}
            return {}
        spec = models.gen_net(rng, n_nodes=rng.randint(1, 4), libs=libs, max_edges=5, delays=delays if edges_mode else None,
                              build='python' if rng.random() < 0.7 else 'yaml')
        if edges_mode and not spec.get('circuits') and rng.random() < 0.35:
            # boundary: a delay of at most one step size next to a longer one on the SAME source variable (a lone sub-step
            # delay is neglected by the implementation; next to a longer one it is honoured and must stay so)
            by_src = {}
            for e in spec['edges']:
                by_src.setdefault(e[0], []).append(e)
            multi = [es for es in by_src.values() if len(es) >= 2]
            if not multi and spec['edges']:
                e0 = rng.choice(spec['edges'])
                others = [e for e in spec['edges'] if e is not e0]
                tgt = rng.choice(others)[1] if others else e0[1]
                if tgt != e0[1] or True:
                    spec['edges'].append([e0[0], tgt if tgt != e0[1] else e0[1], {'weight': 0.625}])
                    if spec['edges'][-1][1] == e0[1]:
                        spec['edges'].pop()       # (a parallel edge: not added)
                    else:
                        multi = [[e0, spec['edges'][-1]]]
            if multi:
                es = rng.choice(multi)
                es[0][2]['delay'] = (rng.randint(2, 12) + rng.uniform(-0.4, 0.4)) * dt
                es[1][2]['delay'] = rng.choice([1.0, 1.0, 0.5, 0.25]) * dt
        if stratum in ('S-edges', 'S-edges-vec') and rng.random() < 0.12:
            # more than ten DISTINCT delays read from one state variable (a hub fanning out to 11-15 nodes)
            spec = models.gen_big(rng, kind='fan', n=rng.randint(12, 16),
                                  delays=lambda r: {'delay': (r.randint(2, 30) + r.uniform(-0.4, 0.4)) * dt})
            mixed = False
        set_taus(rng, spec, dt, steps)
        if mixed and not spec.get('circuits'):
            # the edge delay EQUALS the delay parameter of the operator whose variable it leaves (two delayed reads of one
            # variable that look back equally far when the model is compiled)
            for e in spec['edges']:
                nt = spec['nts'][spec['nodes'][e[0].split('/')[0]]]
                tau = next((v['tau'] for v in nt['var'].values() if 'tau' in v), None)
                if tau:
                    e[2]['delay'] = tau
        cfg = {'dt': dt, 'steps': steps, 'm': m, 'level': 'func' if stratum in ('S-func', 'S-edges', 'S-edges-vec') else 'run',
               'backend': 'torch' if stratum == 'S-torch' else 'default',
               'solver': {'S-run-euler': rng.choice(['euler', 'euler', 'heun']), 'S-run-scipy': 'scipy',
                          'S-torch': rng.choice(['euler', 'scipy'])}.get(stratum, 'scipy'),
               'vectorize': (stratum == 'S-edges-vec') or (stratum not in ('S-edges',) and rng.random() < 0.4),
               'adaptive_func': True if edges_mode else rng.random() < 0.5,
               'probes': [[rng.uniform(0.0, 2.0), rng.randint(0, 50)] for _ in range(6)],
               'hist_capacity': rng.choice([1, 2, 3, 8, 1024]),
               # function level: delay PARAMETERS are arguments of the compiled function - after compiling, they are given
               # other values and every delayed term must follow its own parameter
               'retau': rng.choice([None, None, 1.5, 0.5]),
               # solve_ivp-style keywords a user may pass along with solver='scipy' (they must not change which driver
               # integrates a delayed model)
               'run_kw': rng.choice([{}, {}, {'method': 'RK45'}, {'method': 'RK23'}, {'method': 'DOP853'},
                                     {'method': 'RK45', 'rtol': 1e-6}])}
        if stratum == 'S-edges':
            cfg['vectorize'] = False
        if stratum == 'S-edges-run':
            cfg['solver'] = 'scipy'
            cfg['vectorize'] = rng.random() < 0.6
        if 'cdd' in libs and cfg['level'] == 'run' and cfg['solver'] == 'scipy':
            cfg['solver'] = 'euler'      # scipy's dopri5 driver is real-valued: complex delayed models go through euler/heun
        return {'spec': spec, 'cfg': cfg}

    # ---------------------------------------------------------------------------------------------------
    def execute(self, trace):
        import numpy as np, warnings
        warnings.filterwarnings('ignore')
        spec, cfg = trace['spec'], trace['cfg']
        res = {'violations': [], 'digest': digest([spec, cfg]), 'nontrivial': False, 'probes': {}, 'faults': {}, 'stats': {}}
        P = res['probes']

        def bump(k, n=1):
            P[k] = P.get(k, 0) + n

        def V(law, cls, key, detail):
            res['violations'].append({'law': law, 'cls': cls, 'key': key, 'detail': detail})
        net = models.RefNet(spec)
        prec = 'complex128' if any(i_['lib'] == 'cdd' for i_ in net.inst.values()) else 'float64'

        def num(x):
            x = complex(x)
            return x.real if x.imag == 0 else x
        if cfg.get('emulate') == 'tau_first' and cfg['vectorize']:
            # defect model of KF-C10-vectorized-tau-first-element: every instance of a vectorized delayed operator uses
            # the delay of the first declared instance (its own component of the history)
            first = {}
            for (n_, o_), i_ in net.inst.items():
                if i_['lib'] in ('dd', 'ddt', 'cdd'):
                    first.setdefault(o_, i_['p']['tau'])
                    i_['p']['tau'] = first[o_]
        names = net.state_names
        libs = {i['lib'] for i in net.inst.values()}
        if 'dd' in libs:
            bump('past_notation')
        if 'ddt' in libs:
            bump('t_minus_notation')
        has_dedge = any(a.get('delay') for _, _, a in net.edges)
        if has_dedge:
            bump('delayed_edge_dde')
        has_delay = has_dedge or bool(libs & {'dd', 'ddt', 'cdd'})
        dt, steps = cfg['dt'], cfg['steps']
        T = dt * steps
        decl = net.y0()

        def positions(y0):
            y0 = np.asarray(y0).reshape(-1)
            pos = {}
            for n in names:
                hits = [i for i, v in enumerate(y0) if v == decl[n]]
                if len(hits) != 1:
                    return None
                pos[n] = hits[0]
            return pos

        try:
            c = models.build(spec)
        except Exception as e:
            res['discard'] = f'construction failed: {type(e).__name__}'
            return res

        # =========================================================================== (a) function level
        if cfg['level'] == 'func':
            bump('func_level')
            adaptive = cfg['adaptive_func']
            try:
                f, args, anames, smap = c.get_run_func('vf', dt, vectorize=cfg['vectorize'], float_precision=prec,
                                                       verbose=False, solver='scipy' if adaptive else 'euler')
            except Exception as e:
                res['discard'] = f'model refused at compile time: {type(e).__name__}: {str(e)[:80]}'
                res['probes']['dde_rejected'] = 1
                return res
            pos = positions(args[1])
            if pos is None:
                V('L-init', 'silent', 'initial-state', f'cannot locate declared initial values in {np.asarray(args[1]).tolist()}')
                return res
            if 'hist' not in anames:
                if has_delay:
                    V('L-query', 'silent', 'no-hist', f'model has delayed terms/edges but the compiled function takes no history argument: {anames}')
                else:
                    res['discard'] = 'no delayed term in this sample'
                return res
            hi = list(anames).index('hist')
            N = len(np.asarray(args[1]).reshape(-1))
            retau = {}
            if cfg.get('retau') and not cfg['vectorize']:
                for (n_, o_), i_ in net.inst.items():
                    key_ = f'{n_}/{o_}/tau'
                    if i_['lib'] in ('dd', 'ddt', 'cdd') and key_ in anames and i_['p']['tau'] > 0:
                        i_['p']['tau'] = i_['p']['tau'] * cfg['retau']
                        retau[list(anames).index(key_) - 2] = i_['p']['tau']
                if retau:
                    bump('delay_parameter_changed_after_compile')
            for pi, (t_units, seed_k) in enumerate(cfg['probes']):
                queries = []

                def H(s):
                    queries.append(float(s))
                    return np.array([100.0 * (i + 1) + float(s) for i in range(N)])
                t_arg = t_units if adaptive else int(round(t_units / dt))
                t_time = t_units if adaptive else t_arg * dt
                y = np.array([0.01 * (i + 1) + 0.001 * seed_k for i in range(N)])
                a = [np.array(x, copy=True) if isinstance(x, np.ndarray) else x for x in args[2:]]
                a[hi - 2] = H
                for ai_, tv_ in retau.items():
                    a[ai_] = np.asarray(tv_, dtype=np.asarray(a[ai_]).dtype).reshape(np.asarray(a[ai_]).shape)
                try:
                    r = np.array(f(t_arg, y.copy(), *a), copy=True).reshape(-1)
                except Exception as e:
                    if pi == 0:
                        # refused at its very first evaluation: a loud refusal of the model, not a wrong past value
                        res['discard'] = f'model refused at first evaluation: {type(e).__name__}: {str(e)[:60]}'
                        res['probes']['dde_rejected'] = 1
                        return res
                    else:
                        V('L-call', 'loud', type(e).__name__, f'probe {pi}: raised {type(e).__name__}: {str(e)[:160]}')
                    return res
                yn = {n: num(y[p]) for n, p in pos.items()}

                def past(name, d):
                    return 100.0 * (pos[name] + 1) + (t_time - d)
                want = net.rhs(yn, past=past)
                for n in names:
                    g = num(r[pos[n]])
                    if abs(g - want[n]) > 1e-9 * max(1.0, abs(want[n])):
                        # decode what was read instead
                        V('L-comp', 'silent', 'vectorized' if cfg['vectorize'] else 'scalar',
                          f'probe {pi}: d{n}/dt = {g!r}, expected {want[n]!r} with hist(t-tau)[own component] '
                          f'(t={t_time} time units, adaptive={adaptive}, vectorize={cfg["vectorize"]}); queries made: '
                          f'{sorted(set(round(q, 9) for q in queries))[:8]}')
                        return res
                # L-query: the set of query times is {t - tau_j}
                taus = set()
                for (n, o), i in net.inst.items():
                    if i['lib'] in ('dd', 'ddt', 'cdd'):
                        taus.add(round(t_time - i['p']['tau'], 9))
                for s_, t_, a_ in net.edges:
                    if a_.get('delay'):
                        taus.add(round(t_time - a_['delay'], 9))
                got_q = set(round(q, 9) for q in queries)
                if not taus <= got_q or any(min(abs(q - w) for w in taus) > 1e-6 * max(1, abs(q)) for q in got_q):
                    V('L-query', 'silent', 'times', f'probe {pi}: history queried at {sorted(got_q)}, expected exactly {sorted(taus)} '
                                                    f'(t={t_time} in time units)')
                    return res
            res['nontrivial'] = has_delay
            return res

        # =========================================================================== (b) run level
        if not has_delay:
            res['discard'] = 'no delayed term in this sample'
            return res
        import pyrates.backend.base.base_backend as bb
        from sim.spies import Recorder
        RealHist = bb.DDEHistory
        log = []

        class RecHist(RealHist):
            # tuning knob randomised per run: with a small initial capacity the history grows several times within a
            # short simulation, so growth is part of what the run-level laws see
            _INITIAL_CAPACITY = cfg.get('hist_capacity', 1024)

            def update(self, t, y):
                log.append(('u', float(t), np.array(y, copy=True)))
                return RealHist.update(self, t, y)

            def __call__(self, t):
                r = RealHist.__call__(self, t)
                log.append(('q', float(t), np.array(r, copy=True)))
                return r
        bb.DDEHistory = RecHist
        rec = Recorder()

        def rec_marked(f, **kw_):
            # the recorder, plus a marker in the history log for every RHS evaluation (so that evaluations, history updates
            # and history queries share one order)
            g = rec(f, **kw_)

            def marked(t, y, *a):
                log.append(('e', float(t), None))
                return g(t, y, *a)
            marked.__wrapped__ = f
            return marked
        bump('run_' + cfg['solver'])
        outputs = {f'o{i}': n for i, n in enumerate(names)}
        try:
            skw = {'sampling_step_size': cfg['m'] * dt} if cfg.get('m', 1) > 1 else {}
            if skw:
                bump('subsampled')
            R = c.run(T, dt, outputs=outputs, solver=cfg['solver'], vectorize=cfg['vectorize'], float_precision=prec,
                      decorator=rec_marked, verbose=False, backend=cfg.get('backend', 'default'), **skw,
                      **(cfg.get('run_kw', {}) if cfg['solver'] == 'scipy' else {}))
        except Exception as e:
            if not rec.events:
                res['discard'] = f'model refused: {type(e).__name__}: {str(e)[:80]}'
                res['probes']['dde_rejected'] = 1
                return res
            V('L-run', 'loud', type(e).__name__, f'run raised {type(e).__name__}: {str(e)[:160]} after {rec.calls} evaluations')
            return res
        finally:
            bb.DDEHistory = RealHist
        E = rec.events
        if prec == 'float64' and rec.lossy_time():
            V('L-clock', 'silent', 'time-precision', f'float64 model: the time argument reached the generated function as '
                                                     f'{rec.lossy_time()} (solver={cfg["solver"]}, backend={cfg.get("backend")})')
            return res
        if not E:
            V('L-count', 'silent', 'no-events', 'no RHS evaluations recorded')
            return res
        pos = positions(E[0][1])
        if pos is None:
            V('L-init', 'silent', 'initial-state', f'cannot locate declared initial values in {np.asarray(E[0][1]).tolist()}')
            return res
        ups = [x for x in log if x[0] == 'u']
        qs = [x for x in log if x[0] == 'q']
        if has_delay and not qs:
            V('L-query', 'silent', 'never-queried', 'model has delayed terms but the history was never queried during run')
            return res
        if has_delay and not ups:
            V('L-feed', 'silent', 'never-fed', f'the history was queried {len(qs)} times but never updated during run '
                                               f'(solver={cfg["solver"]})')
            return res
        y0v = np.asarray(E[0][1]).reshape(-1)
        fixed = cfg['solver'] in ('euler', 'heun')
        per = 2 if cfg['solver'] == 'heun' else 1
        # ---- L-feed
        if fixed:
            if len(ups) != steps:
                V('L-feed', 'silent', 'count', f'{len(ups)} history updates for {steps} steps')
                return res
            for k, (_, t, y) in enumerate(ups):
                if abs(t - (k + 1) * dt) > 1e-12 * max(1, t):
                    V('L-feed', 'silent', 'time', f'update {k} recorded at t={t!r}, expected {(k+1)*dt!r}')
                    return res
                if k + 1 < steps and not np.array_equal(np.asarray(y).reshape(-1), np.asarray(E[(k + 1) * per][1]).reshape(-1)):
                    V('L-feed', 'silent', 'state', f'update {k} stored {np.asarray(y).tolist()}, solver state at step {k+1} is '
                                                   f'{np.asarray(E[(k+1)*per][1]).tolist()}')
                    return res
        else:
            last = -1.0
            for k, (_, t, y) in enumerate(ups):
                if t < last:
                    V('L-feed', 'silent', 'order', f'update {k} at t={t} after t={last}')
                    return res
                # every accepted step is fed: the solver stops at each sampling time, so no gap exceeds the sampling step
                if k and t - last > cfg['m'] * dt * (1 + 1e-6) + 1e-12:
                    V('L-feed', 'silent', 'gap', f'no history update between t={last} and t={t} (sampling step {cfg["m"] * dt})')
                    return res
                last = t
            # every ACCEPTED step is fed, not only the sampling times: one attempt of the embedded pair evaluates the RHS at
            # most 7 times at non-decreasing times (a rejected attempt restarts earlier); a longer non-decreasing stretch of
            # evaluations without a history update in between means an accepted step was not recorded
            streak, t_prev = 0, None
            for kind, t, _ in log:
                if kind == 'u':
                    streak, t_prev = 0, None
                elif kind == 'e':
                    streak = streak + 1 if (t_prev is None or t >= t_prev) else 1
                    t_prev = t
                    if streak > 8:
                        V('L-feed', 'silent', 'starved', f'{streak} RHS evaluations at non-decreasing times up to t={t} without a '
                                                         f'history update in between (an accepted solver step was not fed)')
                        return res
        # ---- L-pre / L-post: replay the log against RefHist
        rt, ry = [0.0], [y0v.copy()]
        for kind, t, v in log:
            if kind == 'e':
                continue
            if kind == 'u':
                rt.append(t)
                ry.append(np.asarray(v).reshape(-1))
            else:
                if t <= rt[0]:
                    want = ry[0]
                    law = 'L-pre'
                elif t >= rt[-1]:
                    want = ry[-1]
                    law = 'L-post'
                else:
                    i = bisect.bisect_right(rt, t) - 1
                    al = (t - rt[i]) / (rt[i + 1] - rt[i]) if rt[i + 1] > rt[i] else 0.0
                    want = ry[i] + al * (ry[i + 1] - ry[i])
                    law = 'L-post'
                if not np.allclose(np.asarray(v).reshape(-1), want, rtol=1e-12, atol=1e-14):
                    V(law, 'silent', 'query', f'history query at t={t!r} returned {np.asarray(v).tolist()}, the fed trajectory '
                                              f'gives {np.asarray(want).tolist()} ({len(rt)} records)')
                    return res
        # ---- L-rhs on the recorded events: delayed terms = interpolant of the recorded trajectory at t - tau
        if fixed:
            traj_t = [k * dt for k in range(steps)]
            traj_y = [np.asarray(E[k * per][1]).reshape(-1) for k in range(steps)]

            def make_past(tnow, upto):
                def past(name, d):
                    s = tnow - d
                    if s <= 0:
                        return num(y0v[pos[name]])
                    # piecewise-linear interpolant of the iterates known at this step
                    j = min(int(s / dt + 1e-12), upto)
                    if j >= upto:
                        return num(traj_y[upto][pos[name]])
                    al = (s - j * dt) / dt
                    return num(traj_y[j][pos[name]] + al * (traj_y[j + 1][pos[name]] - traj_y[j][pos[name]]))
                return past
            for e, (t, y, r) in enumerate(E):
                k = e // per
                if per == 2 and e % 2 == 1:
                    continue
                yn = {n: num(np.asarray(y).reshape(-1)[p]) for n, p in pos.items()}
                want = net.rhs(yn, past=make_past(k * dt, k))
                for n in names:
                    g = num(np.asarray(r).reshape(-1)[pos[n]])
                    if abs(g - want[n]) > 1e-9 * max(1.0, abs(want[n])):
                        V('L-traj', 'silent', 'euler-replica',
                          f'step {k}: d{n}/dt = {g!r}; with delayed terms read from the piecewise-linear interpolant of the '
                          f'computed trajectory (constant pre-history) the reference gives {want[n]!r}')
                        return res
        else:
            # fine fixed-step RK4 reference with linear history
            h = dt / 40.0
            nst = int(round(T / h))
            ts = [0.0]
            ys = [dict(decl)]

            # the history only holds the steps the solver has accepted so far and answers later times with the last of
            # them ("the interpolated computed trajectory"): a delay shorter than the current solver step reads the state at
            # the start of that step.  The reference reproduces this with the recorded acceptance times.
            acc = [0.0] + [float(u[1]) for u in ups]

            def pastf(tnow):
                cap = acc[max(bisect.bisect_left(acc, tnow - 1e-12) - 1, 0)]

                def past(name, d):
                    s = min(tnow - d, cap)
                    if s <= 0:
                        return decl[name]
                    j = min(int(s / h + 1e-12), len(ys) - 1)
                    if j >= len(ys) - 1:
                        return ys[-1][name]
                    al = (s - j * h) / h
                    return ys[j][name] + al * (ys[j + 1][name] - ys[j][name])
                return past
            y = dict(decl)
            for k in range(nst):
                t0 = k * h
                k1 = net.rhs(y, past=pastf(t0))
                k2 = net.rhs({n: y[n] + h / 2 * k1[n] for n in y}, past=pastf(t0 + h / 2))
                k3 = net.rhs({n: y[n] + h / 2 * k2[n] for n in y}, past=pastf(t0 + h / 2))
                k4 = net.rhs({n: y[n] + h * k3[n] for n in y}, past=pastf(t0 + h))
                y = {n: y[n] + h / 6 * (k1[n] + 2 * k2[n] + 2 * k3[n] + k4[n]) for n in y}
                ys.append(y)
                ts.append((k + 1) * h)
            idx = np.asarray(R.index.values, dtype=float)
            scale = max(max(abs(v) for v in yy.values()) for yy in ys)
            if not np.isfinite(scale) or scale > 1e6:
                res['discard'] = 'unstable workload'
                return res
            worst = 0.0
            for i, n in enumerate(names):
                got = np.asarray(R[f'o{i}'].values, dtype=complex if prec.startswith('complex') else float)
                for row, t in enumerate(idx):
                    j = min(int(round(t / h)), nst)
                    d = abs(got[row] - ys[j][n])
                    worst = max(worst, d / max(scale, 1e-9))
                    if d > 1e-2 * max(scale, 1e-3):
                        V('L-traj', 'silent', 'adaptive',
                          f'{n} at t={t}: run returned {got[row]!r}, method-of-steps reference {ys[j][n]!r} '
                          f'(|diff| {d:.3e} > 1e-2*{scale:.3g})')
                        return res
            res['maxima'] = {'adaptive_dde_err_over_scale': worst}
        min_delay = min([i['p']['tau'] for i in net.inst.values() if i['lib'] in ('dd', 'ddt', 'cdd')] +
                        [a['delay'] for _, _, a in net.edges if a.get('delay')] + [1e9])
        res['nontrivial'] = has_delay and T > min_delay
        res['stats'] = {'rhs_events': len(E), 'hist_updates': len(ups), 'hist_queries': len(qs)}
        res['sim_time'] = T
        return res

    def shrink(self, trace):
        cfg, spec = trace['cfg'], trace['spec']
        if cfg['steps'] > 20:
            yield with_key(trace, ['cfg', 'steps'], 20)
        if len(cfg['probes']) > 1:
            yield with_key(trace, ['cfg', 'probes'], cfg['probes'][:1])
        if spec.get('build') == 'yaml':
            yield with_key(trace, ['spec', 'build'], 'python')
        from checks.c03 import shrink_spec

        def in_domain(sp):
            # a delay of at most one step is only generated next to a longer one on the same source variable (alone it is
            # neglected by the implementation, by design): a minimised trace keeps that
            dt_ = cfg['dt']
            flat_e = models.flatten(sp)[1]
            for s_, t_, a_ in flat_e:
                d_ = a_.get('delay')
                if d_ and d_ <= dt_ * (1 + 1e-9):
                    if not any(s2 == s_ and (a2.get('delay') or 0) > dt_ * (1 + 1e-9) for s2, _, a2 in flat_e):
                        return False
            return True
        for t in shrink_spec({'spec': spec, 'cfg': {'input': None}}):
            try:
                if not in_domain(t['spec']):
                    continue
            except Exception:
                continue
            t2 = copy.deepcopy(trace)
            t2['spec'] = t['spec']
            yield t2

    def known(self):
        def vec_tau(trace, v):
            if not trace['cfg']['vectorize'] or v['law'] not in ('L-comp', 'L-query', 'L-traj'):
                return False
            net = models.RefNet(trace['spec'])
            by_op = {}
            for (n, o), i in net.inst.items():
                if i['lib'] in ('dd', 'ddt', 'cdd'):
                    by_op.setdefault(o, set()).add(i['p']['tau'])
            return any(len(t) > 1 for t in by_op.values())

        def ab_vec(t):
            t['cfg']['vectorize'] = False
            return t

        def explain(t):
            t['cfg']['emulate'] = 'tau_first'
            return t
        return [KF('KF-C10-vectorized-tau-first-element', vec_tau, ab_vec, explain=explain)]


CHECK = C10()
