"""C03 — run() returns the numerical solution of the compiled system.

The recorded RHS-call history of the real solver loop (decorator= seam) is checked event by event against the
solver law (exact arithmetic, same dtype), the storage/time-axis law and the reference vector field (RefNet).
Fault: the RHS raises at evaluation k (F-rhs) -> run must propagate it.
"""
import math, copy
import scipy.integrate  # noqa: imported in the parent so that forked children do not pay for it
from sim.driver import Check, KF, digest
from sim.shrink import with_key
from sim import models

DTS = [1e-4, 1e-3, 7e-3, 0.01, 0.05, 0.1, 0.25, 0.3, 1 / 3]


def gen_input(rng, spec, steps):
    """one extrinsic input onto a random node: unique decodable samples"""
    net = models.RefNet(spec)
    (node, opn), inst = rng.choice([(k_, i_) for k_, i_ in net.inst.items() if models.LIB[i_['lib']]['in']])
    invar = models.LIB[inst['lib']]['in']
    amp = rng.choice([0.25, 1.0, -0.5])
    return {'target': f'{node}/{opn}/{invar}', 'node': node, 'op': opn, 'amp': amp, 'n': steps}


def input_array(inp):
    import numpy as np
    k = np.arange(inp['n'])
    if inp.get('kind') == 'smooth':   # adaptive solvers: their tolerance means something only for smooth forcing
        return inp['amp'] * (1.0 + 0.5 * np.sin(2 * np.pi * k / max(inp['n'], 8)) + k / 1024.0)
    return inp['amp'] * (1.0 + (k % 17) / 16.0 + k / 1024.0)


def typed_dts(cfg):
    import numpy as np
    return {'int': int, 'np.int64': np.int64, 'np.float32': np.float32}.get(cfg.get('dts_type'), float)(cfg['dts'])


class C03(Check):
    pid = 'C03'
    timeout = 90.0
    quick_runs = 1280
    thorough_budget_s = 900
    rule = ('one run = one seeded (model spec, dt, sampling ratio m, rows K, cutoff, solver, precision, vectorize, '
            'optional extrinsic input, optional RHS fault) executed through CircuitTemplate.run in a pristine fork '
            'with every RHS evaluation recorded; distinct = distinct decision digest of the trace; non-trivial = '
            'the run completed, recorded >= 4 RHS events and every law was evaluated on it')
    components_real = ['pyrates (frontend, IR, ComputeGraph, BaseBackend code generation, _solve_euler, _solve_heun, '
                       '_solve_scipy)', 'numpy', 'scipy.integrate.solve_ivp', 'pandas']
    components_stubbed = ['none; the RHS spy wraps the real generated function through the decorator= keyword']
    assumptions = ['scipy DOP853 at rtol 1e-12 on the reference vector field is the trusted solution for L-adaptive',
                   'model library (lin/sat/integ/osc/leak operators, weighted edges) stands for "all models"']
    required_probes = {'thorough': ['heun_pair', 'cutoff_drop', 'rhs_fault', 'adaptive']}

    def strata(self, tier):
        s = [('S-main', 6), ('S-heun', 3), ('S-adaptive', 3), ('S-fault', 1), ('S-nonmult', 1), ('S-onerow', 1),
             ('S-torch', 1), ('S-jax', 2), ('S-complex', 1), ('S-big', 1)]
        if tier == 'thorough':
            s.append(('S-fortran', 1))      # f2py build per run (~6-10 s): thorough tier only
        return s

    def prepare_parent(self):
        try:
            import torch  # noqa: imported once in the parent; children are forked from it (no torch op runs here)
        except Exception:
            pass
        try:
            import jax  # noqa: same for jax (the XLA client is created lazily, in the child)
        except Exception:
            pass

    # ------------------------------------------------------------------------------------------------
    def generate(self, rng, stratum, tier):
        # a third of the models carry multi-operator nodes (a readout operator behind the node's first operator)
        spec = models.gen_net(rng, hier=rng.random() < 0.25, readouts=(0.4, 0.0, 0.5, 0.6) if rng.random() < 0.35 else None)
        if stratum == 'S-big':
            # sizes that toy models never reach: 9-16 nodes (two-digit suffixes in generated names, vectorized groups of 10+),
            # dozens of edges, now and then more than a thousand steps
            spec = models.gen_net(rng, n_nodes=rng.randint(9, 16), max_edges=rng.randint(15, 40), hier=rng.random() < 0.2,
                                  libs=rng.choice([('lin', 'sat', 'osc', 'leak', 'integ', 'linl'), ('lin',), ('lin', 'leak')]),
                                  readouts=(0.3, 0.0, 0.5, 0.6) if rng.random() < 0.3 else None)
        if stratum == 'S-complex':
            spec = models.gen_net(rng, libs=('cz',), hier=rng.random() < 0.2)     # complex-valued states
        elif rng.random() < 0.25:
            models.add_edge_templates(rng, spec, p=0.6)
        dt = rng.choice(DTS)
        m = rng.randint(1, 7)
        kmax = max(2, min(60, int(400 // m), int(8.0 / (m * dt)) or 2))
        K = rng.randint(2, kmax)
        if stratum == 'S-big' and rng.random() < 0.3:
            dt, m = rng.choice([1e-4, 1e-3]), rng.choice([1, 4])
            K = rng.randint(1030, 1400) // m          # more than 1024 steps
        solver = 'euler'
        kw = {}
        if stratum == 'S-fortran':
            solver = rng.choice(['euler', 'heun', 'scipy'])
            if solver == 'scipy':
                rtol = rng.choice([1e-6, 1e-8])
                kw = {'method': rng.choice(['RK45', 'DOP853']), 'rtol': rtol, 'atol': rtol * 1e-2}
        elif stratum == 'S-jax':
            solver = rng.choice(['euler', 'heun', 'scipy', 'diffrax'])   # lax.scan loops, scipy wrapper, diffrax
            if solver in ('scipy', 'diffrax'):
                rtol = rng.choice([1e-6, 1e-8])
                kw = {'rtol': rtol, 'atol': rtol * 1e-2}
                if solver == 'scipy':
                    kw['method'] = rng.choice(['RK45', 'DOP853'])
        elif stratum == 'S-torch':
            solver = rng.choice(['euler', 'scipy'])      # the torch backend's own solver implementations
            if solver == 'scipy':
                rtol = rng.choice([1e-6, 1e-8, 1e-10])
                kw = {'method': rng.choice(['RK45', 'DOP853']), 'rtol': rtol, 'atol': rtol * 1e-2}
        elif stratum == 'S-heun':
            solver = 'heun'
        elif stratum == 'S-adaptive':
            solver = 'scipy'
            rtol = rng.choice([1e-4, 1e-6, 1e-8, 1e-10])
            method = rng.choice(['RK45', 'DOP853', 'LSODA', 'RK23'])
            if method == 'RK23':
                rtol = max(rtol, 1e-8)
            kw = {'method': method, 'rtol': rtol, 'atol': rtol * 1e-2}
        elif stratum in ('S-main', 'S-fault', 'S-nonmult', 'S-onerow', 'S-big'):
            solver = rng.choice(['euler', 'euler', 'heun']) if stratum != 'S-main' else 'euler'
        if stratum == 'S-onerow':
            K = 1
        dts = m * dt
        if rng.random() < (0.75 if stratum in ('S-jax', 'S-torch') else 0.5):
            # the sampling step as a user types it (0.3, not 3*0.1 = 0.30000000000000004): dts/dt may then fall just
            # below the integer ratio in floating point
            dts = float(f'{m * dt:.12g}')
        dts_type = 'float'
        # (fixed-step solvers only: these runs cover tens of time units, for which the accuracy bound of the adaptive laws -
        #  calibrated on short runs, no allowance for error growth in unstable models - does not hold on the unchanged tree)
        if stratum in ('S-main', 'S-heun', 'S-torch', 'S-jax', 'S-fortran') and solver in ('euler', 'heun') and rng.random() < 0.15:
            # a sampling step that is a whole number of time units, typed by the user as an int / numpy scalar
            dt = rng.choice([0.5, 0.25, 0.125])
            dts = float(rng.choice([1, 2]))
            m = int(round(dts / dt))
            K = rng.randint(2, 24)
            dts_type = rng.choice(['int', 'int', 'np.int64', 'np.float32'])
        T = K * dts
        if stratum == 'S-nonmult':
            T = T + rng.choice([0.5, 0.3, 1.2, 2.6]) * dt
        steps = int(round(T / dt))
        cut_kind = rng.choice(['zero', 'zero', 'on', 'between', 'beyond'])
        cutoff = {'zero': 0.0, 'on': rng.randint(0, K) * dts, 'between': rng.uniform(0, T),
                  'beyond': T + dts}[cut_kind]
        if cut_kind == 'beyond' and rng.random() < 0.7:
            cutoff = 0.0
        cfg = {'dt': dt, 'm': m, 'K': K, 'T': T, 'dts': dts, 'cutoff': cutoff, 'solver': solver, 'solver_kw': kw,
               'backend': {'S-torch': 'torch', 'S-jax': 'jax', 'S-fortran': 'fortran'}.get(stratum, 'default'),
               'vectorize': rng.random() < 0.5 and stratum != 'S-fortran',
               'precision': 'float64' if rng.random() < 0.8 else 'float32',
               'sampling_arg': True if m > 1 or rng.random() < 0.7 else False,
               'outputs': rng.choice(['explicit', 'wild']),
               'input': gen_input(rng, spec, steps) if rng.random() < 0.4 else None,
               'fault_at': None, 'dts_type': dts_type}
        if stratum == 'S-complex':
            cfg.update({'precision': rng.choice(['complex128', 'complex128', 'complex64']), 'input': None, 'rowlevel': True,
                        'solver': rng.choice(['euler', 'heun', 'heun']), 'solver_kw': {}, 'outputs': 'explicit',
                        'fault_at': None})
        if stratum in ('S-jax', 'S-fortran'):
            cfg['outputs'] = 'explicit'
        if solver in ('scipy', 'diffrax'):
            cfg['precision'] = 'float64'
            if stratum == 'S-jax':
                cfg['input'] = None
            if cfg['input']:
                cfg['input']['kind'] = 'smooth'
            if stratum in ('S-fortran',):
                cfg['input'] = None     # the fortran interp helper (nearest neighbour, reconnaissance R6) is C08's subject
        if stratum == 'S-fault':
            per = 2 if solver == 'heun' else 1
            cfg['fault_at'] = rng.randint(0, max(0, steps * per - 1))
            if rng.random() < 0.35:
                # an adaptive solver that terminates before T (the RHS turns non-finite from evaluation k on): run() must
                # refuse loudly or deliver every row - never a shorter frame
                method = rng.choice(['RK45', 'DOP853', 'LSODA', 'RK23'])
                cfg.update({'solver': 'scipy', 'solver_kw': {'method': method, 'rtol': 1e-6, 'atol': 1e-8}, 'precision': 'float64',
                            'fault_at': None, 'nan_from': rng.randint(3, 60)})
                if cfg['input']:
                    cfg['input']['kind'] = 'smooth'
        return {'spec': spec, 'cfg': cfg}

    # ------------------------------------------------------------------------------------------------
    def execute(self, trace):
        import numpy as np
        from sim.spies import Recorder, RHSFault
        spec, cfg = trace['spec'], trace['cfg']
        viol, probes, faults = [], {}, {}

        def V(law, cls, key, detail):
            viol.append({'law': law, 'cls': cls, 'key': key, 'detail': detail})

        def bump(k, n=1):
            probes[k] = probes.get(k, 0) + n

        net = models.RefNet(spec)
        names = net.state_names
        # outputs request
        if cfg['outputs'] == 'explicit':
            outputs = {f'o{i}': n for i, n in enumerate(names)}
        else:
            outputs = {}
            groups = {}
            for n in names:
                groups.setdefault(tuple(n.split('/')[-2:]), []).append(n)
            if any(len(g) < 2 for g in groups.values()):
                # a wildcard that matches one node next to one that matches several makes run() build its MultiIndex
                # from a bare string (column label split into characters): a labelling matter (C06), not C03's
                outputs = None
        if outputs is None:
            outputs = {f'o{i}': n for i, n in enumerate(names)}
        elif cfg['outputs'] != 'explicit':
            depth = '/'.join(['all'] * (2 if spec.get('circuits') else 1))
            used = {o for (_, o) in net.inst}
            for opk, o in spec['ops'].items():
                if o['name'] not in used:
                    continue
                for v in models.LIB[o['lib']]['state']:
                    outputs[f"w_{o['name']}_{v}"] = f"{depth}/{o['name']}/{v}"
        c = models.build(spec)
        if cfg['backend'] in ('jax', 'fortran') or cfg.get('rowlevel'):
            return self._exec_jax(trace, c, net, names, outputs)
        rec = Recorder(fault_at=cfg['fault_at'], nan_from=cfg.get('nan_from'))
        kw = dict(cfg['solver_kw'])
        if cfg['sampling_arg']:
            kw['sampling_step_size'] = typed_dts(cfg)
        inputs = None
        u = None
        if cfg['input']:
            u = input_array(cfg['input'])
            inputs = {cfg['input']['target']: u}
        res = {'violations': viol, 'probes': probes, 'faults': faults,
               'faults_cfg': {'rhs_fault': 1} if cfg['fault_at'] is not None else ({'rhs_nan': 1} if cfg.get('nan_from') is not None else {}),
               'digest': digest([spec, cfg]), 'nontrivial': False, 'sim_time': cfg['T'], 'stats': {}}
        try:
            R = c.run(cfg['T'], cfg['dt'], inputs=inputs, outputs=outputs, cutoff=cfg['cutoff'],
                      solver=cfg['solver'], backend=cfg['backend'], vectorize=cfg['vectorize'],
                      float_precision=cfg['precision'], decorator=rec, verbose=False, **kw)
        except RHSFault:
            faults['rhs_fault'] = rec.fired
            bump('rhs_fault')
            res['nontrivial'] = True
            return res
        except Exception as e:
            import traceback
            tb = traceback.extract_tb(e.__traceback__)
            where = f'{tb[-1].filename.split("/")[-1]}:{tb[-1].name}'
            gen_file = tb[-1].filename.endswith('pyrates_run.py')
            if rec.nan_fired:
                faults['rhs_nan'] = 1
                bump('early_termination_refused')
                res['nontrivial'] = True
                return res
            if rec.calls == 0 or (gen_file and rec.calls <= 1):
                # the model was refused at compile time / first evaluation: a loud refusal is not a statement about
                # the solution of the compiled system (C01/C20 territory) -> discarded and counted
                res['discard'] = f'model refused: {type(e).__name__} at {where}'
                return res
            V('L-run', 'loud', type(e).__name__, f'run raised {type(e).__name__}: {str(e)[:200]} at {where} '
                                                 f'after {rec.calls} RHS evaluations')
            return res
        if cfg.get('nan_from') is not None:
            if not rec.nan_fired:
                res['discard'] = 'fault point beyond last evaluation'
                return res
            faults['rhs_nan'] = 1
            rows_all = int(round(cfg['T'] / cfg['dts']))
            scale = max(cfg['T'], cfg['dts'])
            must = [j for j in range(rows_all) if j * cfg['dts'] >= cfg['cutoff'] + 1e-9 * scale]
            if len(R.index) < len(must):
                V('F-rhs', 'silent', 'short-frame', f'the solver terminated early (RHS non-finite from evaluation {cfg["nan_from"]}); '
                                                    f'run() returned {len(R.index)} rows instead of {len(must)} without raising')
                return res
            bump('early_termination_full_frame')
            res['nontrivial'] = True
            return res
        if cfg['fault_at'] is not None:
            if rec.fired:
                V('F-rhs', 'silent', 'swallowed', f'RHS raised at evaluation {cfg["fault_at"]} but run returned normally')
            else:
                res['discard'] = 'fault point beyond last evaluation'
            return res
        E = rec.events
        if cfg['precision'] == 'float64' and rec.lossy_time():
            V('L-clock', 'silent', 'time-precision', f'float64 model: the time argument reached the generated function as '
                                                     f'{rec.lossy_time()} (solver={cfg["solver"]}, backend={cfg["backend"]})')
            return res
        dt, m, T, dts = cfg['dt'], cfg['m'], cfg['T'], cfg['dts']
        steps = int(round(T / dt))
        fdt = np.dtype(cfg['precision'])
        res['stats'] = {'rhs_events': len(E), 'steps': steps}
        if not E:
            V('L-count', 'silent', 'no-events', 'no RHS evaluation recorded')
            return res
        if not all(np.all(np.isfinite(e[1])) and np.all(np.isfinite(e[2])) for e in E):
            res['discard'] = 'non-finite trajectory (unstable workload)'
            return res
        tol = 1e-9 if fdt == np.float64 else 2e-4

        # ---- L-init / position decoding: every declared initial value sits at exactly one position of y_0
        y0 = np.asarray(E[0][1]).reshape(-1)
        decl = net.y0()
        pos = {}
        for n in names:
            want = fdt.type(decl[n])
            hits = [i for i, v in enumerate(y0) if v == want]
            if len(hits) != 1:
                V('L-init', 'silent', 'initial-state',
                  f'declared initial value {decl[n]} of {n} found at positions {hits} of y0={y0.tolist()}')
                return res
            pos[n] = hits[0]
        if len(y0) != len(names):
            V('L-init', 'silent', 'state-dim', f'state vector has {len(y0)} entries, model declares {len(names)}')
            return res

        def named(vec):
            vec = np.asarray(vec, dtype=float).reshape(-1)
            return {n: float(vec[p]) for n, p in pos.items()}

        fixed = cfg['solver'] in ('euler', 'heun')
        per = 2 if cfg['solver'] == 'heun' else 1
        # ---- L-count, L-clock
        if fixed:
            if len(E) != steps * per:
                V('L-count', 'silent', cfg['solver'], f'{len(E)} RHS evaluations for {steps} steps of {cfg["solver"]}')
                return res
            for e, (t, y, r) in enumerate(E):
                k = e // per
                ok = (t == k) if (per == 1 or e % 2 == 0) else (t in (k, k + 1))
                if not ok:
                    V('L-clock', 'silent', cfg['solver'], f'evaluation {e} (step {k}) received t={t}')
                    return res
        # ---- L-rhs: every evaluation equals the reference vector field (extrinsic input included)
        rhs_bad = None
        for e, (t, y, r) in enumerate(E):
            extra = None
            if cfg['input']:
                if fixed:
                    kk = int(t)
                    if kk >= len(u):
                        continue   # which sample a corrector at the last step reads is C08's business
                    ue = float(u[kk])
                    if per == 2 and e % 2 == 1:
                        continue   # which sample the corrector reads is pinned by C08, not C03
                else:
                    ue = float(np.interp(float(t), np.linspace(0, T, len(u)), u))
                extra = {(cfg['input']['node'], cfg['input']['op']): ue}
            want = net.rhs(named(y), extra)
            got = named(r)
            for n in names:
                if abs(got[n] - want[n]) > tol * max(1.0, abs(want[n])):
                    rhs_bad = (e, n, got[n], want[n])
                    break
            if rhs_bad:
                break
        if rhs_bad:
            e, n, g, w = rhs_bad
            V('L-rhs', 'silent', 'vector-field', f'evaluation {e} (t={E[e][0]}): d{n}/dt = {g}, reference {w}')
            return res
        # ---- L-step
        if fixed:
            ys = [E[k * per][1] for k in range(steps)]
            for k in range(steps - 1):
                y, r1 = E[k * per][1], E[k * per][2]
                if per == 1:
                    yn = y.copy(); yn += dt * r1
                else:
                    bump('heun_pair')
                    yp = y + dt * r1
                    if not np.array_equal(yp, E[k * per + 1][1]):
                        V('L-step', 'silent', 'heun-predictor',
                          f'step {k}: corrector evaluated at {E[k*per+1][1].tolist()}, expected y+dt*f(y) = {yp.tolist()}')
                        return res
                    r2 = E[k * per + 1][2]
                    yn = y.copy(); yn += dt / 2 * (r1 + r2)
                if not np.array_equal(yn, ys[k + 1]):
                    d = float(np.max(np.abs(np.asarray(yn, dtype=float) - np.asarray(ys[k + 1], dtype=float))))
                    V('L-step', 'silent', cfg['solver'] + '-iterate',
                      f'step {k}: y[k+1] = {np.asarray(ys[k+1]).tolist()} but y[k] + increment = {np.asarray(yn).tolist()} '
                      f'(max diff {d:.3e}, dt={dt}, solver={cfg["solver"]})')
                    return res
        # ---- columns -> names
        col_name = {}
        for col in R.columns:
            parts = [x for x in col if isinstance(x, str)] if isinstance(col, tuple) else [col]
            if len(parts) > 1:
                key, *nodes, ov = parts
                col_name[col] = '/'.join(list(nodes) + [ov])
            else:
                path = outputs[parts[0]]
                if 'all' in path.split('/'):
                    op_, v_ = path.split('/')[-2:]
                    cands = [n for n in names if n.endswith(f'/{op_}/{v_}')]
                    col_name[col] = cands[0] if len(cands) == 1 else None
                else:
                    col_name[col] = path
        if sorted(x for x in col_name.values() if x) != sorted(names):
            V('L-store', 'silent', 'columns', f'columns {list(R.columns)} do not cover the requested variables {names}')
            return res
        # ---- L-time / L-cutoff / row count
        rows_all = int(round(T / dts))
        idx = np.asarray(R.index.values, dtype=float)
        js = [int(round(t / dts)) for t in idx]
        scale = max(T, dts)
        for t, j in zip(idx, js):
            if abs(t - j * dts) > 1e-9 * scale:
                V('L-time', 'silent', 'index', f'index value {t!r} is not a multiple of the sampling step {dts} '
                                                f'(nearest row {j} -> {j*dts!r}); T={T}, dt={dt}')
                return res
        cutoff = cfg['cutoff']
        must = [j for j in range(rows_all) if j * dts >= cutoff + 1e-9 * scale]
        may = [j for j in range(rows_all) if abs(j * dts - cutoff) <= 1e-9 * scale]
        if not (set(must) <= set(js) <= set(must) | set(may)) or js != sorted(set(js)):
            V('L-cutoff' if cutoff > 0 else 'L-rows', 'silent', 'row-set',
              f'returned rows {js[:5]}..{js[-3:] if js else []} (n={len(js)}); expected rows '
              f'{must[:3]}..{must[-3:] if must else []} (n={len(must)}) of round(T/dts)={rows_all}, cutoff={cutoff}')
            return res
        if cutoff > 0 and len(js) < rows_all:
            bump('cutoff_drop')
        # ---- L-store
        if fixed:
            for col in R.columns:
                n = col_name[col]
                vals = np.asarray(R[col].values, dtype=float)
                for row, j in enumerate(js):
                    if j * m >= steps:
                        V('L-store', 'silent', 'row-beyond', f'row {j} stored but only {steps} steps were taken')
                        return res
                    want = float(np.asarray(E[j * m * per][1]).reshape(-1)[pos[n]])
                    if vals[row] != want:
                        V('L-store', 'silent', 'iterate',
                          f'column {col} ({n}) row {j} (t={idx[row]}) = {vals[row]!r}, iterate y[{j*m}] = {want!r}')
                        return res
        else:
            bump('adaptive')
            from scipy.integrate import solve_ivp
            order = names

            def f(t, yv):
                extra = None
                if cfg['input']:
                    extra = {(cfg['input']['node'], cfg['input']['op']):
                             float(np.interp(t, np.linspace(0, T, len(u)), u))}
                d = net.rhs(dict(zip(order, yv)), extra)
                return [d[n] for n in order]
            y0v = [decl[n] for n in order]
            if len(idx):
                sol = solve_ivp(f, (0.0, float(max(idx[-1], 1e-12))), y0v, method='DOP853', rtol=1e-12, atol=1e-14,
                                t_eval=idx, max_step=(T / (len(u) - 1) if cfg['input'] else np.inf))
                rtol = cfg['solver_kw'].get('rtol', 1e-3)
                atol = cfg['solver_kw'].get('atol', 1e-6)
                # replica: scipy's own solver with the identical settings on the reference vector field
                rep = solve_ivp(f, (0.0, T), y0v, first_step=dt, t_eval=np.linspace(0.0, T, rows_all, endpoint=False),
                                **cfg['solver_kw'])
                if rep.y.shape[1] == rows_all:
                    for col in R.columns:
                        n = col_name[col]
                        got = np.asarray(R[col].values, dtype=float)
                        rv = rep.y[order.index(n)][js]
                        rr = float(np.max(np.abs(got - rv)) / max(np.max(np.abs(rep.y)), 1e-12))
                        mk = 'replica_rel_diff' + ('_forced' if cfg['input'] else '')
                        res.setdefault('maxima', {})[mk] = max(rr, res.get('maxima', {}).get(mk, 0.0))
                        if not cfg['input'] and rr > 1e-9:
                            b = int(np.argmax(np.abs(got - rv)))
                            V('L-replica', 'silent', 'solution',
                              f'{n} at t={idx[b]}: run returned {got[b]!r}; scipy solve_ivp with the same method/'
                              f'tolerances/first step on the reference vector field gives {rv[b]!r} (rel diff {rr:.3e})')
                            return res
                nsteps_est = max(len(E) / 6.0, 1.0)
                for col in R.columns:
                    n = col_name[col]
                    refv = sol.y[order.index(n)]
                    got = np.asarray(R[col].values, dtype=float)
                    bound = 50 * nsteps_est ** 0.5 * (atol + rtol * np.maximum(np.abs(refv), np.max(np.abs(sol.y))))
                    if cfg['input']:
                        # piecewise-linear forcing has a kink at every sample: a high-order pair steps across kinks
                        # and its error estimate no longer bounds the error; what the RHS read at every evaluation
                        # is checked exactly by L-rhs, so the solution-level law is only a coarse net here
                        bound = bound + 5e-3 * max(1.0, np.max(np.abs(sol.y)))
                    ratio = float(np.max(np.abs(got - refv) / bound))
                    mk = 'adaptive_err_over_bound' + ('_forced' if cfg['input'] else '')
                    res.setdefault('maxima', {})[mk] = max(ratio, res.get('maxima', {}).get(mk, 0.0))
                    bad = np.nonzero(np.abs(got - refv) > bound)[0]
                    if len(bad):
                        b = bad[0]
                        V('L-adaptive', 'silent', 'solution',
                          f'{n} at t={idx[b]}: run returned {got[b]!r}, reference solution {refv[b]!r} '
                          f'(|diff|={abs(got[b]-refv[b]):.3e} > bound {bound[b]:.3e}; method={cfg["solver_kw"].get("method")}, rtol={rtol})')
                        return res
        res['nontrivial'] = len(E) >= 4
        return res

    # ------------------------------------------------------------------------------------------------
    def _exec_jax(self, trace, c, net, names, outputs):
        """jax: lax.scan traces the RHS once, so evaluations cannot be recorded; the returned rows are compared with the
        reference Euler/Heun iterates (same dt, exact laws up to 1e-9) or with the DOP853 reference (adaptive)"""
        import numpy as np
        spec, cfg = trace['spec'], trace['cfg']
        res = {'violations': [], 'probes': {cfg['backend']: 1}, 'faults': {}, 'digest': digest([spec, cfg]), 'nontrivial': False,
               'sim_time': cfg['T'], 'stats': {}}

        def V(law, cls, key, detail):
            res['violations'].append({'law': law, 'cls': cls, 'key': key, 'detail': detail})
        kw = dict(cfg['solver_kw'])
        if cfg['sampling_arg']:
            kw['sampling_step_size'] = typed_dts(cfg)
        inputs, u = None, None
        if cfg['input']:
            u = input_array(cfg['input'])
            inputs = {cfg['input']['target']: u}
        try:
            R = c.run(cfg['T'], cfg['dt'], inputs=inputs, outputs=outputs, cutoff=cfg['cutoff'], solver=cfg['solver'],
                      backend=cfg['backend'], vectorize=cfg['vectorize'], float_precision=cfg['precision'], verbose=False,
                      **kw)
        except Exception as e:
            res['discard'] = f'model/solver refused on {cfg["backend"]}: {type(e).__name__}: {str(e)[:60]}'
            return res
        cplx = 'complex' in cfg['precision']
        vals = np.asarray(R.values, dtype=complex if cplx else float)
        if not np.all(np.isfinite(vals)):
            res['discard'] = 'non-finite trajectory'
            return res
        dt, m, T, dts = cfg['dt'], cfg['m'], cfg['T'], cfg['dts']
        steps = int(round(T / dt))
        rows_all = int(round(T / dts))
        idx = np.asarray(R.index.values, dtype=float)
        js = [int(round(t / dts)) for t in idx]
        scale = max(T, dts)
        if any(abs(t - j * dts) > 1e-9 * scale for t, j in zip(idx, js)):
            V('L-time', 'silent', 'index', f'index {idx[:4].tolist()}.. is not a multiple of the sampling step {dts}')
            return res
        cutoff = cfg['cutoff']
        must = [j for j in range(rows_all) if j * dts >= cutoff + 1e-9 * scale]
        may = [j for j in range(rows_all) if abs(j * dts - cutoff) <= 1e-9 * scale]
        if not (set(must) <= set(js) <= set(must) | set(may)) or js != sorted(set(js)):
            V('L-cutoff' if cutoff > 0 else 'L-rows', 'silent', 'row-set',
              f'returned rows n={len(js)} {js[:4]}..; expected n={len(must)} of round(T/dts)={rows_all}, cutoff={cutoff}')
            return res
        col = {k: np.asarray(R[k].values, dtype=complex if cplx else float) for k in outputs}
        name_of = {k: outputs[k] for k in outputs}
        if cfg['solver'] in ('euler', 'heun'):
            def extra_at(k, traj):
                if not cfg['input']:
                    return None
                return {(cfg['input']['node'], cfg['input']['op']): float(u[min(k, len(u) - 1)])}
            trajs = [(models.ref_euler if cfg['solver'] == 'euler' else models.ref_heun)(net, dt, steps, extra_at)]
            if cfg['solver'] == 'heun' and cfg['input']:
                # which input sample the corrector stage reads (k or k+1) is pinned by C08, not by C03: both conventions
                # are accepted here, exactly like L-clock does for the recorded loops
                y = net.y0()
                alt = [dict(y)]
                for k in range(steps):
                    r1 = net.rhs(y, extra_at(k, None))
                    yp = {n: y[n] + dt * r1[n] for n in y}
                    r2 = net.rhs(yp, extra_at(k + 1, None))
                    y = {n: y[n] + dt / 2 * (r1[n] + r2[n]) for n in y}
                    alt.append(dict(y))
                trajs.append(alt)
            tol = 1e-9 if cfg['precision'] in ('float64', 'complex128') else 5e-4
            fails = []
            for traj in trajs:
                bad = None
                for k, n in name_of.items():
                    for row, j in enumerate(js):
                        w = traj[j * m][n]
                        if abs(col[k][row] - w) > tol * max(1.0, abs(w)):
                            bad = (n, j, row, w, col[k][row])
                            break
                    if bad:
                        break
                if bad is None:
                    fails = []
                    break
                fails.append(bad)
            if fails:
                n, j, row, w, g = fails[0]
                V('L-step', 'silent', cfg['backend'] + '-' + cfg['solver'] + ('-input' if cfg['input'] else ''),
                  f'{n} row {j} (t={idx[row]}): {cfg["backend"]} {cfg["solver"]} returned {g!r}, reference iterate '
                  f'y[{j*m}] = {w!r} (dt={dt}, precision={cfg["precision"]})')
                return res
        else:
            from scipy.integrate import solve_ivp
            order = names
            decl = net.y0()

            def f(t, yv):
                d = net.rhs(dict(zip(order, yv)))
                return [d[n] for n in order]
            if len(idx):
                sol = solve_ivp(f, (0.0, float(max(idx[-1], 1e-12))), [decl[n] for n in order], method='DOP853',
                                rtol=1e-12, atol=1e-14, t_eval=idx)
                rtol, atol = kw.get('rtol', 1e-3), kw.get('atol', 1e-6)
                for k, n in name_of.items():
                    refv = sol.y[order.index(n)]
                    bound = 200 * (atol + rtol * np.maximum(np.abs(refv), np.max(np.abs(sol.y)))) * max(1.0, steps ** 0.5)
                    bad = np.nonzero(np.abs(col[k] - refv) > bound)[0]
                    ratio = float(np.max(np.abs(col[k] - refv) / bound)) if len(refv) else 0.0
                    res.setdefault('maxima', {})['jax_adaptive_err_over_bound'] = max(
                        ratio, res.get('maxima', {}).get('jax_adaptive_err_over_bound', 0.0))
                    if len(bad):
                        b = bad[0]
                        V('L-adaptive', 'silent', 'jax-' + cfg['solver'],
                          f'{n} at t={idx[b]}: jax {cfg["solver"]} returned {col[k][b]!r}, reference solution {refv[b]!r}')
                        return res
        res['nontrivial'] = len(js) >= 2
        return res

    # ------------------------------------------------------------------------------------------------
    def shrink(self, trace):
        cfg, spec = trace['cfg'], trace['spec']
        if cfg['K'] > 2 and cfg['fault_at'] is None:
            for K in (2, cfg['K'] // 2):
                if K < cfg['K']:
                    t = copy.deepcopy(trace)
                    extra = t['cfg']['T'] - t['cfg']['K'] * t['cfg']['dts']
                    t['cfg']['K'] = K
                    t['cfg']['T'] = K * t['cfg']['dts'] + extra
                    if t['cfg']['input']:
                        t['cfg']['input']['n'] = int(round(t['cfg']['T'] / t['cfg']['dt']))
                    t['cfg']['cutoff'] = min(t['cfg']['cutoff'], t['cfg']['T'])
                    yield t
        if cfg['cutoff']:
            yield with_key(trace, ['cfg', 'cutoff'], 0.0)
        if cfg['input']:
            yield with_key(trace, ['cfg', 'input'], None)
        # (a complex-valued model stays complex: at a real precision the run is a different model)
        if cfg['precision'] == 'float32':
            yield with_key(trace, ['cfg', 'precision'], 'float64')
        if cfg['precision'] == 'complex64':
            yield with_key(trace, ['cfg', 'precision'], 'complex128')
        if cfg['vectorize']:
            yield with_key(trace, ['cfg', 'vectorize'], False)
        if cfg['outputs'] != 'explicit':
            yield with_key(trace, ['cfg', 'outputs'], 'explicit')
        if spec.get('build') != 'python':
            yield with_key(trace, ['spec', 'build'], 'python')
        yield from shrink_spec(trace)

    def known(self):
        def nonmult(trace, v):
            c = trace['cfg']
            r = c['T'] / c['dts']
            return abs(r - round(r)) > 1e-6 and v['law'] in ('L-time', 'L-run', 'L-store', 'L-rows', 'L-cutoff')

        def ab_nonmult(t):
            c = t['cfg']
            c['T'] = c['K'] * c['dts']
            if c['input']:
                c['input']['n'] = int(round(c['T'] / c['dt']))
            return t

        def onerow(trace, v):
            return int(round(trace['cfg']['T'] / trace['cfg']['dts'])) == 1 and v['law'] == 'L-run' \
                and v['key'] == 'ValueError'

        def ab_onerow(t):
            c = t['cfg']
            c['K'] = 2
            c['T'] = 2 * c['dts']
            if c['input']:
                c['input']['n'] = int(round(c['T'] / c['dt']))
            return t
        return [KF('KF-C03-nonmult-time-axis', nonmult, ab_nonmult),
                KF('KF-C03-one-row', onerow, ab_onerow)]


def shrink_spec(trace):
    """structural simplifiers on the model spec: drop an edge, drop a node, flatten"""
    spec = trace['spec']

    def levels(s, path):
        yield s, path
        for k, sub in (s.get('circuits') or {}).items():
            yield from levels(sub, path + ['circuits', k])
    for s, path in levels(spec, ['spec']):
        for i in range(len(s.get('edges', []))):
            t = copy.deepcopy(trace)
            d = t
            for k in path:
                d = d[k]
            del d['edges'][i]
            yield t
        for n in list(s.get('nodes', {})):
            if len(s['nodes']) <= 1:
                break
            t = copy.deepcopy(trace)
            d = t
            for k in path:
                d = d[k]
            del d['nodes'][n]
            # drop edges that mention the node anywhere
            def prune(q, prefix):
                q['edges'] = [e for e in q.get('edges', [])
                              if n not in e[0].split('/')[:-2] and n not in e[1].split('/')[:-2]]
                for sub in (q.get('circuits') or {}).values():
                    prune(sub, prefix)
            prune(t['spec'], '')
            if t['cfg'].get('input') and t['cfg']['input']['node'].split('/')[-1] == n:
                t['cfg']['input'] = None
            yield t


CHECK = C03()
