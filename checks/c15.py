"""C15 — YAML, Python and inherited definitions of a model are equivalent (persistence clauses first).

The YAML file is durable storage, clear_frontend_caches() / a pristine process is a restart.  Histories:
save -> restart -> load -> save ... over 1-4 generations, with injected OSError / torn write during a save (F-io-yaml);
L-recover (loaded model == original, names included, judged by a pristine observer that loads the file itself),
L-fixpoint (generation g+1 == generation g, file text included from generation 2 on), L-torn (a failed save leaves the
template and the process unharmed and the next save round-trips), L-dual (Python-built == YAML-built),
L-inherit (template derived via base: + variable overrides + equation edit dictionary == explicitly written template,
edits applied to whole identifiers only; the base template is left unchanged).
"""
import copy, json, os, re
from sim.driver import Check, KF, digest
from sim import models
from sim.shrink import with_key

IDENTS = ['r', 'rr', 'r_in', 'm_in2', 'tau', 'k', 'kk', 'r2', 'in_r']


def edit_identifiers(eq, mapping):
    """tokenizer-based whole-identifier substitution"""
    return re.sub(r'[A-Za-z_]\w*', lambda m: mapping.get(m.group(0), m.group(0)), eq)


def gen_inherit(rng):
    """base operator over identifiers that contain one another (prefixes AND suffixes: k/kk/a_k, r2/x_r2, r/rr/r_in/in_r),
    terms in seeded order (so that any identifier can be the last token of an equation), a derived operator with
    overrides + edit dict, and the explicitly written expectation"""
    suffix_case = rng.random() < 0.3     # an equation ENDS in a longer identifier whose suffix is the edited one (a_k / k)

    def eq(lhs, first, terms):
        terms = list(terms)
        rng.shuffle(terms)
        if rng.random() < 0.5:
            terms = terms + [first]
            first = terms.pop(0)
        if suffix_case and any(t == 'a_k' for _, t in terms):
            terms = [x for x in terms if x[1] != 'a_k'] + [x for x in terms if x[1] == 'a_k']
        out = first[1] if first[0] > 0 else f'-{first[1]}'
        for sgn, t in terms:
            out += (' + ' if sgn > 0 else ' - ') + t
        return f"{lhs} = {out}"
    base_eqs = [eq("r'", (-1, 'r/tau'), [(1, 'rr*k'), (1, 'r_in'), (1, 'm_in2*kk'), (1, 'a_k')]),
                eq("rr'", (-1, 'rr'), [(1, 'r*r2'), (-1, 'in_r'), (1, 'x_r2*rr')])]
    base_vars = {'r': 'output(0.25)', 'rr': 'variable(0.5)', 'k': 1.5, 'kk': 0.75, 'a_k': 0.3125, 'r_in': 'input(0.0)',
                 'm_in2': 0.125, 'tau': 0.5, 'r2': 2.0, 'x_r2': -0.25, 'in_r': 0.375}
    params = ['r_in', 'k', 'kk', 'a_k', 'r2', 'x_r2', 'in_r', 'm_in2']
    edits = {}
    exp_eqs = list(base_eqs)
    new_vars = {}
    kind = rng.choice(['replace', 'replace', 'replace', 'replace2', 'append', 'add', 'remove', 'vars-only', 'replace+add',
                       'replace+add', 'delayterm'])
    if kind == 'delayterm':
        # feature interaction: an inherited edit of a term that stands directly before the bracket of the delay shorthand
        # x(t-d); decided on the equation TEXT of the derived template (no compile)
        base_eqs[1] = base_eqs[1] + ' + kk*rr(t-dl)'
        base_vars['dl'] = 0.05
        exp_eqs = list(base_eqs)
        edits['replace'] = {'kk*rr': 'g2*rr'}
        exp_eqs = [re.sub(r'(?<![A-Za-z0-9_])kk\*rr(?![A-Za-z0-9_])', 'g2*rr', e) for e in exp_eqs]
        new_vars['g2'] = 0.625
    if kind == 'replace+add':
        # one edit dictionary with both keys; the added equation mentions the replaced identifier and must stay verbatim
        old = rng.choice(['k', 'r2', 'kk', 'm_in2'])
        edits['replace'] = {old: f'({old}*g2)'}
        exp_eqs = [edit_identifiers(e, {old: f'({old}*g2)'}) for e in exp_eqs]
        added = f"s2' = -s2 + {old}*r"
        edits['add'] = [added]
        exp_eqs = exp_eqs + [added]
        new_vars['g2'] = 0.625
        new_vars['s2'] = 'variable(0.1)'
    elif kind in ('replace', 'replace2'):
        # parameters and inputs only: replacing a state variable also on the left-hand side would be a rename, which the
        # edit dictionary does not offer (d/dt targets stay as they are)
        old = rng.choice(params + ['k', 'r2']) if not suffix_case else 'k'
        repl = rng.choice(['({old}*g2)', '({old} + g2)', 'g2'])
        new = repl.format(old=old)
        edits['replace'] = {old: new}
        if kind == 'replace2':
            old2 = rng.choice([x for x in params if x != old and x not in new and old not in x])
            edits['replace'][old2] = f'({old2}*h2)'
            new_vars['h2'] = 1.25
        # sequential application in dict order, like the implementation's loop, each on whole identifiers
        for o, n in edits['replace'].items():
            exp_eqs = [edit_identifiers(e, {o: n}) for e in exp_eqs]
        new_vars['g2'] = 0.625
    elif kind == 'append':
        edits['append'] = '+ g2*kk'
        exp_eqs = [f'{e} + g2*kk' for e in exp_eqs]
        new_vars['g2'] = 0.625
    elif kind == 'add':
        edits['add'] = ["s2' = -s2 + r*rr"]
        exp_eqs = exp_eqs + ["s2' = -s2 + r*rr"]
        new_vars['s2'] = 'variable(0.1)'
    elif kind == 'remove':
        term = rng.choice(['a_k', 'in_r', 'r_in'])
        if rng.random() < 0.5:
            # a longer identifier that starts with the removed one stands in the same equation (a_k2 next to a_k)
            term = 'a_k'
            base_eqs[0] = base_eqs[0] + ' + a_k2*kk'
            base_vars['a_k2'] = 0.4375
            exp_eqs = list(base_eqs)
        # remove the whole signed term wherever it stands (string removal of "<sign> term", whole identifiers)
        pat = {'a_k': '+ a_k', 'in_r': '- in_r', 'r_in': '+ r_in'}[term]
        if any(pat in e for e in base_eqs):
            edits['remove'] = [pat] if rng.random() < 0.5 else pat       # list, or the bare string a user may write
            exp_eqs = [re.sub(r'(?<![A-Za-z0-9_])' + re.escape(pat) + r'(?![A-Za-z0-9_])', '', e) for e in exp_eqs]
        else:
            kind = 'vars-only'
    over = {}
    for v in rng.sample(['k', 'kk', 'tau', 'r2', 'm_in2', 'a_k', 'x_r2'], rng.randint(0, 2)):
        over[v] = rng.randint(1, 40) / 16
    if rng.random() < 0.3:
        over['r'] = 'output(0.75)'
    exp_vars = dict(base_vars)
    exp_vars.update(over)
    exp_vars.update(new_vars)

    # variables that no longer occur in any equation are dropped by PyRates (documented clean-up): mirror that
    def occurs(v, eqs):
        return any(re.search(r'(?<![A-Za-z0-9_])' + re.escape(v) + r'(?![A-Za-z0-9_])', e) for e in eqs)
    exp_vars = {v: d for v, d in exp_vars.items() if occurs(v, exp_eqs)}
    return {'base_eqs': base_eqs, 'base_vars': base_vars, 'edits': edits, 'over': {**over, **new_vars},
            'exp_eqs': exp_eqs, 'exp_vars': exp_vars, 'kind': kind}


def inherit_yaml(inh):
    L = ['%YAML 1.2', '---', '', 'base_op:', '  base: OperatorTemplate', '  equations:']
    L += [f'    - "{e}"' for e in inh['base_eqs']]
    L += ['  variables:'] + [f'    {v}: {d}' for v, d in inh['base_vars'].items()]
    L += ['', 'der_op:', '  base: base_op']
    if inh['edits']:
        L += ['  equations:']
        for k, v in inh['edits'].items():
            if k == 'replace':
                L += ['    replace:'] + [f'      {o}: "{n}"' for o, n in v.items()]
            elif k in ('add', 'remove') and isinstance(v, list):
                L += [f'    {k}:'] + [f'      - "{x}"' for x in v]
            else:
                L += [f'    {k}: "{v}"']
    if inh['over']:
        L += ['  variables:'] + [f'    {v}: {d}' for v, d in inh['over'].items()]
    L += ['', 'der_node:', '  base: NodeTemplate', '  operators:', '    - der_op', '',
          'base_node:', '  base: NodeTemplate', '  operators:', '    - base_op', '',
          'der_c:', '  base: CircuitTemplate', '  nodes:', '    p: der_node', '',
          'base_c:', '  base: CircuitTemplate', '  nodes:', '    p: base_node', '']
    return '\n'.join(L)


class C15(Check):
    pid = 'C15'
    timeout = 120.0
    quick_runs = 560
    thorough_budget_s = 900
    rule = ('one run = one seeded model (flat / two-level, shared operators, per-node overrides in their own stratum, edge '
            'attributes incl. delay/spread values) taken through 1-4 save -> restart -> load generations on a simulated '
            'durable store (with an injected OSError or torn write during one save in fault runs), or built through both '
            'frontends, or derived through base: with overrides and an equation edit dictionary over identifiers that '
            'contain one another; every model is judged by a pristine observer that loads/compiles it itself; distinct = '
            'distinct decision digest; non-trivial = the original compiled in the observer and at least one '
            'save+restart+load (or one derived / dual pair) was compared')
    components_real = ['pyrates frontend: to_yaml/dict dump, from_yaml, template cache, update_template / equation edits, '
                       'ruamel.yaml', 'default backend for the observations']
    components_stubbed = ['none of PyRates; pathlib.Path.open is patched to fail on the k-th write in fault runs']
    assumptions = ['restart = clear_frontend_caches() in the saving process + a pristine observer process that loads the file',
                   'expected derived equations are produced by a regex tokenizer (whole identifiers)']
    required_probes = {'thorough': ['gen>=3', 'yaml_io', 'torn', 'inherit', 'dual', 'hier', 'overwrote_longer_file', 'same_size_rewrite']}

    def strata(self, tier):
        return [('S-flat', 3), ('S-hier', 2), ('S-overrides', 1), ('S-fault', 2), ('S-inherit', 3), ('S-dual', 2),
                ('S-nodes', 2), ('S-restart', 2), ('S-samepath', 2)]

    def generate(self, rng, stratum, tier):
        if stratum == 'S-inherit':
            return {'mode': 'inherit', 'inh': gen_inherit(rng)}
        if stratum == 'S-nodes':
            # node templates derived via base: (with dict-form operators = per-node variations) and circuits whose nodes
            # come from another file (fully qualified) next to local ones with the same template name
            g = lambda lo=1, hi=48: rng.randint(lo, hi) / 16
            return {'mode': 'nodes', 'kind': rng.choice(['derive', 'derive+override', 'multifile', 'multifile', 'two-ops', 'two-ops']),
                    'vals': {'aS': g(), 'aM': g(), 'xS': g(-32, 32), 'xM': g(-32, 32), 'vA': g(), 'vB': g(), 'w': g(-32, 32) or 0.5,
                             'external_first': rng.random() < 0.7}}
        dl = (lambda r: ({'delay': r.choice([0.004, 0.02]), 'spread': r.choice([None, 0.002])} if r.random() < 0.3 else {}))
        if stratum == 'S-overrides':
            spec = models.gen_aliased(rng, build=rng.choice(['python', 'yaml']))
        else:
            # per_node_ops: every node has operators of its own (no overrides) - or, in a third of the models, shared operators
            # with per-node overrides in dict form; 40 % of the models have multi-operator nodes, some of whose second
            # operators carry NO override (an empty entry next to a non-empty one)
            spec = models.gen_net(rng, n_nodes=rng.randint(1, 5), per_node_ops=rng.random() < 0.65,
                                  hier=(stratum == 'S-hier') or rng.random() < 0.2,
                                  delays=dl, build=rng.choice(['python', 'yaml']), libs=('lin', 'sat', 'osc', 'leak'),
                                  readouts=(0.5, 0.4) if rng.random() < 0.4 else None, bare=0.3)
            for e in _all_edges(spec):
                e[2] = {k: v for k, v in e[2].items() if v is not None}
            if spec.get('circuits') and rng.random() < 0.3:
                # ONE sub-circuit template used twice, with coupling operators (string attributes that are re-scoped per level)
                # on the edges inside it
                models.make_twin_subcircuits(rng, spec)
                models.add_edge_templates(rng, spec, p=0.9)
            elif rng.random() < 0.4:
                models.add_edge_templates(rng, spec, p=0.6)
            if spec.get('circuits') and stratum != 'S-dual' and not spec.get('twin_sub') and rng.random() < 0.4:
                # two sub-circuit templates that share their NAME but not their content (e.g. columns made by one factory)
                for sub in spec['circuits'].values():
                    sub['name'] = 'col'
                spec['build'] = 'python'
        if stratum == 'S-dual':
            if rng.random() < 0.25:
                # complex-valued models: the Python frontend receives complex constants as Python objects, YAML as text
                spec = models.gen_net(rng, n_nodes=rng.randint(1, 4), libs=('cz',), build='python')
                for e in _all_edges(spec):
                    e[2] = {k: v for k, v in e[2].items() if v is not None}
                return {'mode': 'dual', 'spec': spec, 'precision': 'complex128'}
            return {'mode': 'dual', 'spec': spec}
        gens = rng.randint(1, 6 if tier == 'thorough' else 4)
        fault = None
        if stratum == 'S-fault':
            fault = {'at_gen': rng.randint(1, gens), 'errno': rng.choice(['ENOSPC', 'EIO', 'EACCES']), 'short': rng.random() < 0.5}
            if rng.random() < 0.6:
                # a LOAD that fails half-way (I/O error at the k-th file read, or an interruption at the n-th pyrates call),
                # then the same load again: it must succeed and give the stored model
                fault['read'] = {'at_gen': rng.randint(1, gens), 'kind': rng.choice(['oserror', 'oserror', 'interrupt']),
                                 'nth': rng.choice([1, 1, 2, 2, 3, 4, 6]), 'n_call': rng.randint(1, 150)}
                if rng.random() < 0.5:
                    fault['at_gen'] = 0          # only the load fails in this run
        restart = None
        if stratum == 'S-restart':
            # the loaded (path-cached) template is modified in place, then the process is "restarted" with
            # pyrates.clear(model) on a model that holds no compiled IR, and the same path is loaded again
            net = models.RefNet(spec)
            (rn, ro), ri = rng.choice(list(net.inst.items()))
            rv = rng.choice(models.LIB[ri['lib']]['const'] + models.LIB[ri['lib']]['state'])
            restart = {'how': rng.choice(['clear_model', 'clear_model', 'clear_frontend_caches']),
                       'mutate': {f'{rn}/{ro}/{rv}': rng.randint(1, 60) / 16}}
        samepath = None
        if stratum == 'S-samepath':
            # every generation is written to ONE path.  Before the first save the path holds a LONGER file (another,
            # bigger model saved and loaded earlier); between generations one constant is replaced by a value whose text
            # has the same length, the file is written again (same size, same second), the caches are cleared and the
            # path is loaded again: the store is what counts, not what was there or parsed before
            net = models.RefNet(spec)
            cands = []
            for (rn, ro), ri in sorted(net.inst.items()):
                for rv in models.LIB[ri['lib']]['const']:
                    cands.append(f'{rn}/{ro}/{rv}')
            # initial values of state variables are rewritten too, handed over as numpy scalars (an element of an array)
            scands = [f'{rn}/{ro}/{rv}' for (rn, ro), ri in sorted(net.inst.items()) for rv in models.LIB[ri['lib']]['state']
                      if not ri['lib'].startswith('c')]
            decoy = models.gen_net(rng, n_nodes=rng.randint(6, 8), per_node_ops=True, libs=('lin', 'sat', 'osc', 'leak'), build='python')
            for e in _all_edges(decoy):
                e[2] = {k: v for k, v in e[2].items() if v is not None}
            if spec.get('twin_sub'):
                cands = []      # (an override on one instance of a twin sub-circuit makes the two differ: one operator with
                #                  different override sets - KF-C15-shared-operator-overrides' subject, not this stratum's)
            samepath = {'decoy': decoy if rng.random() < 0.7 else None, 'load_decoy': rng.random() < 0.5,
                        'rewrites': [[rng.choice(cands), rng.choice([1.5, 2.5, 3.5, 0.5, 1.25, 2.25, 3.25, 0.25, 2.75, 1.75])]
                                     for _ in range(rng.randint(0, 2))] if cands else []}
            if cands and scands and rng.random() < 0.35:
                samepath['rewrites'].append([rng.choice(scands), rng.choice([0.375, -0.625, 0.875, 0.3, -0.7]), 'np.float64'])
        return {'mode': 'store', 'spec': spec, 'gens': gens, 'fault': fault, 'restart': restart, 'samepath': samepath}

    # ---------------------------------------------------------------------------------------------------
    def execute(self, trace):
        import warnings
        warnings.filterwarnings('ignore')
        from sim.observer import Observer, snapshot
        from sim import observe, fingerprint as FP
        res = {'violations': [], 'digest': digest(trace), 'nontrivial': False, 'probes': {}, 'faults': {}, 'faults_cfg': {},
               'stats': {}}
        P = res['probes']

        def bump(k, n=1):
            P[k] = P.get(k, 0) + n

        def V(law, cls, key, detail):
            res['violations'].append({'law': law, 'cls': cls, 'key': key, 'detail': detail})
        cwd = os.getcwd()
        obsv = Observer(os.path.join(cwd, '_observer'))
        mode = trace['mode']
        from pyrates import CircuitTemplate, NodeTemplate, OperatorTemplate, clear_frontend_caches

        if mode == 'inherit':
            bump('inherit')
            inh = trace['inh']
            with open('inh.yaml', 'w') as f:
                f.write(inherit_yaml(inh))
            # (0) the equation TEXT of the derived operator, loaded in this process
            try:
                der_op = OperatorTemplate.from_yaml(os.path.join(cwd, 'inh/der_op'))
                got_eqs = [' '.join(str(e).split()) for e in der_op.equations]
            except Exception as e:
                got_eqs = None
                load_exc = f'{type(e).__name__}: {str(e)[:120]}'
            want_eqs = [' '.join(e.split()) for e in inh['exp_eqs']]
            if got_eqs is None:
                if inh['kind'] == 'delayterm':
                    obsv.abort()
                    V('L-inherit', 'loud', 'delayterm', f'loading the derived operator (edits {json.dumps(inh["edits"])}) raised {load_exc}')
                    return res
            elif sorted(got_eqs) != sorted(want_eqs):
                obsv.abort()
                V('L-inherit', 'silent', inh['kind'] + '-text', f'derived operator (edits {json.dumps(inh["edits"])}) has equations '
                                                                 f'{got_eqs}, expected {want_eqs}')
                return res
            if inh['kind'] == 'delayterm':
                obsv.abort()
                bump('inherit_text_only')
                res['nontrivial'] = True
                return res
            # (1) derived through YAML, loaded by the observer in a pristine process
            obsv.submit(None, 'obs_yaml', path=os.path.join(cwd, 'inh/der_c'))
            # (2) explicitly written expectation, built through the Python classes
            obsv.submit(None, 'obs_explicit', eqs=inh['exp_eqs'], variables=inh['exp_vars'], opname='der_op')
            # (3) base before / after deriving in the SAME process: the base template must be unchanged
            obsv.submit(None, 'obs_yaml', path=os.path.join(cwd, 'inh/base_c'))
            obsv.submit(None, 'obs_base_after_derive', base=os.path.join(cwd, 'inh/base_c'), derived=os.path.join(cwd, 'inh/der_c'))
            der, exp, base0, base1 = obsv.collect()
            if exp['scalar'].get('status') != 'ok':
                res['discard'] = f"expectation does not compile: {exp['scalar'].get('exc')}: {exp['scalar'].get('msg')}"
                return res
            d = observe.diff(der, exp, rtol=1e-12)
            if d:
                V('L-inherit', 'loud' if der['scalar'].get('status') != 'ok' else 'silent', inh['kind'],
                  f'derived template (edits {json.dumps(inh["edits"])}, overrides {json.dumps(inh["over"])}) differs from '
                  f'the explicitly written one (equations {inh["exp_eqs"]}): {d[:300]}'
                  + (f' [{der["scalar"].get("exc")}: {der["scalar"].get("msg")}]' if der['scalar'].get('status') != 'ok' else ''))
                return res
            d = observe.diff(base1, base0, rtol=1e-12)
            if d:
                V('L-inherit-base', 'silent', inh['kind'], f'loading the derived template changed its base template: {d[:300]}')
                return res
            res['nontrivial'] = True
            return res

        if mode == 'nodes':
            bump('nodes')
            v = trace['vals']
            kind = trace['kind']
            lin = lambda a, x: {'eqs': ["x' = -a*x + u"], 'vars': {'x': f'output({x})', 'a': float(a), 'u': 'input(0.0)'}}
            os.makedirs('lib', exist_ok=True)
            open('lib/__init__.py', 'w').close()

            def op_yaml(name, a, x):
                return [f'{name}:', '  base: OperatorTemplate', '  equations:', '    - "x\' = -a*x + u"', '  variables:',
                        f'    x: output({x})', f'    a: {float(a)!r}', '    u: input(0.0)', '']
            if kind == 'two-ops':
                # a multi-operator node in dict form: the first operator carries overrides, the second an EMPTY entry; both
                # own a variable `a` (and the second reads the first's x).  Expectation: the overrides written into the
                # first operator's own defaults, no per-node variations at all
                L = ['%YAML 1.2', '---', ''] + op_yaml('opM', v['aM'], v['xM'])
                L += ['opR:', '  base: OperatorTemplate', '  equations:', '    - "r\' = -a*r + x"', '  variables:',
                      f"    r: output({v['xS']})", f"    a: {float(v['aS'])!r}", '    x: input(0.0)', '']
                empty = '{}' if v['external_first'] else ''
                L += ['pnode:', '  base: NodeTemplate', '  operators:', '    opM:', f"      a: {float(v['vA'])!r}",
                      f"      x: {float(v['vB'])!r}", f'    opR: {empty}'.rstrip(), '',
                      'circ:', '  base: CircuitTemplate', '  nodes:', '    p: pnode', '  edges:',
                      f"    - [p/opR/r, p/opM/u, null, {{weight: {float(v['w'])!r}}}]", '']
                with open('lib/mainf.yaml', 'w') as f:
                    f.write('\n'.join(L))
                exp = {'ops': {'opM': lin(v['vA'], v['vB']),
                               'opR': {'eqs': ["r' = -a*r + x"], 'vars': {'r': f"output({v['xS']})", 'a': float(v['aS']), 'x': 'input(0.0)'}}},
                       'nodes': {'p': {'name': 'pnode', 'operators': [['opM', {}], ['opR', {}]]}},
                       'edges': [['p/opR/r', 'p/opM/u', {'weight': v['w']}]]}
            elif kind.startswith('derive'):
                L = ['%YAML 1.2', '---', ''] + op_yaml('opM', v['aM'], v['xM'])
                L += ['base_node:', '  base: NodeTemplate', '  operators:', '    opM:', f"      a: {float(v['vA'])!r}", '']
                L += ['der_node:', '  base: base_node']
                exp_var = {'a': v['vA']}
                if kind == 'derive+override':
                    L += ['  operators:', '    opM:', f"      x: {float(v['vB'])!r}"]
                    # `operators` is the attribute that is overridden: as a whole, with the variations given in the child
                    # (the implementation's documented update rule: the child's operator listing replaces the base's)
                    exp_var = {'x': v['vB']}
                L += ['', 'circ:', '  base: CircuitTemplate', '  nodes:', '    p: der_node', '    q: base_node', '  edges:',
                      f"    - [p/opM/x, q/opM/u, null, {{weight: {float(v['w'])!r}}}]", '']
                with open('lib/mainf.yaml', 'w') as f:
                    f.write('\n'.join(L))
                exp = {'ops': {'opM': lin(v['aM'], v['xM'])},
                       'nodes': {'p': {'name': 'der_node', 'operators': [['opM', exp_var]]},
                                 'q': {'name': 'base_node', 'operators': [['opM', {'a': v['vA']}]]}},
                       'edges': [['p/opM/x', 'q/opM/u', {'weight': v['w']}]]}
                if kind == 'derive+override':
                    # operators given in a derived node template: documented update semantics are "update", i.e. the base's
                    # variations stay unless overridden -> {'a': vA, 'x': vB}
                    pass
            else:
                S = ['%YAML 1.2', '---', ''] + op_yaml('opS', v['aS'], v['xS'])
                S += ['driver:', '  base: NodeTemplate', '  operators:', '    - opS', '',
                      'pop:', '  base: NodeTemplate', '  operators:', '    opS:', f"      a: {float(v['vB'])!r}", '']
                with open('lib/shared.yaml', 'w') as f:
                    f.write('\n'.join(S))
                L = ['%YAML 1.2', '---', ''] + op_yaml('opM', v['aM'], v['xM'])
                L += ['pop:', '  base: NodeTemplate', '  operators:', '    - opM', '', 'circ:', '  base: CircuitTemplate', '  nodes:']
                L += (['    d: lib.shared.driver', '    p: pop'] if v['external_first'] else ['    p: pop', '    d: lib.shared.driver'])
                L += ['  edges:', f"    - [d/opS/x, p/opM/u, null, {{weight: {float(v['w'])!r}}}]", '']
                with open('lib/mainf.yaml', 'w') as f:
                    f.write('\n'.join(L))
                order = ['d', 'p'] if v['external_first'] else ['p', 'd']
                nd = {'d': {'name': 'driver', 'operators': [['opS', {}]]}, 'p': {'name': 'pop', 'operators': [['opM', {}]]}}
                exp = {'ops': {'opS': lin(v['aS'], v['xS']), 'opM': lin(v['aM'], v['xM'])},
                       'nodes': {k: nd[k] for k in order}, 'edges': [['d/opS/x', 'p/opM/u', {'weight': v['w']}]]}
            obsv.submit(None, 'obs_yaml', path='lib.mainf.circ', cwd=cwd)
            obsv.submit(None, 'obs_explicit_circuit', **exp)
            got, want = obsv.collect()
            if want['scalar'].get('status') != 'ok':
                res['discard'] = f"expectation does not compile: {want['scalar'].get('exc')}"
                return res
            d = observe.diff(got, want, rtol=1e-12)
            if d:
                V('L-inherit-node' if kind.startswith('derive') else ('L-multifile' if kind == 'multifile' else 'L-node-dict-form'),
                  'loud' if got['scalar'].get('status') != 'ok' else 'silent', kind,
                  f'YAML model ({kind}, values {json.dumps(v)}) differs from the explicitly written one: {d[:300]}'
                  + (f' [{got["scalar"].get("exc")}: {got["scalar"].get("msg")}]' if got['scalar'].get('status') != 'ok' else ''))
                return res
            res['nontrivial'] = True
            return res

        spec = trace['spec']
        if spec.get('circuits'):
            bump('hier')
        if mode == 'dual':
            bump('dual')
            sp_py, sp_ya = copy.deepcopy(spec), copy.deepcopy(spec)
            sp_py['build'], sp_ya['build'] = 'python', 'yaml'
            for o in sp_ya['ops'].values():
                o.pop('decl', None)
            with open('dual.yaml', 'w') as f:
                f.write(models.yaml_text(sp_ya))
            prec = trace.get('precision', 'float64')
            if prec != 'float64':
                bump('dual_complex')
            obsv.submit(None, 'obs_spec', spec=sp_py, precision=prec)
            obsv.submit(None, 'obs_yaml', path=os.path.join(cwd, f'dual/{spec["name"]}'), precision=prec)
            a, b = obsv.collect()
            if a['scalar'].get('status') != 'ok':
                res['discard'] = f"model refused: {a['scalar'].get('exc')}"
                return res
            d = observe.diff(b, a, rtol=1e-12)
            if d:
                V('L-dual', 'silent', 'python-vs-yaml', f'YAML-built model differs from the Python-built one: {d[:300]}')
                return res
            if prec == 'float64' and not any(e[2].get('delay') or e[2].get('spread') for e in _all_edges(spec)):
                # both frontends agree - and both mean what is written: every declared value and override, the vector field
                # at probe states and a short vectorized run against the reference semantics of the spec
                import numpy as np
                from checks.c07 import C07
                v = C07._judge('model as defined (both frontends)', models.RefNet(copy.deepcopy(spec)), a, np)
                if v:
                    V('L-dual', v['cls'], 'definition-' + v['key'], v['detail'])
                    return res
                bump('dual_vs_reference')
            res['nontrivial'] = True
            return res

        # ------------------------------------------------------------------ store mode
        try:
            T = models.build(spec, fname='m_T')
        except Exception as e:
            obsv.abort()
            res['discard'] = f'construction failed: {type(e).__name__}'
            return res
        obsv.submit(snapshot(T), 'obs_both')
        name = spec['name']
        fault = trace.get('fault')
        texts = []
        jobs = []      # (label, observer index)
        n_obs = 1
        cur = T
        sp = trace.get('samepath')
        if sp:
            # ---------------------------------------------------------------- one path, overwritten again and again
            bump('samepath')
            path = 'model.yaml'
            try:
                if sp.get('decoy'):
                    D = models.build(sp['decoy'], fname='m_decoy')
                    D.to_yaml(path)
                    bump('decoy_saved')
                    if sp.get('load_decoy'):
                        CircuitTemplate.from_yaml(f'model/{sp["decoy"]["name"]}')
                    dec_size = os.path.getsize(path)
                else:
                    dec_size = 0
                T.to_yaml(path)
                if dec_size > os.path.getsize(path):
                    bump('overwrote_longer_file')
            except Exception as e:
                obsv.abort()
                res['discard'] = f'setup of the same-path history failed: {type(e).__name__}: {str(e)[:80]}'
                return res
            jobs = []
            applied = {}

            def expected():
                E = models.build(spec, fname=f'm_E{len(jobs)}')
                if applied:
                    E.update_var(node_vars=dict(applied))
                return snapshot(E)
            try:
                clear_frontend_caches()
                cur = CircuitTemplate.from_yaml(f'model/{name}')
            except Exception as e:
                obsv.collect()
                V('L-recover', 'loud', type(e).__name__, f'loading the model saved over a longer file at the same path raised '
                                                         f'{type(e).__name__}: {str(e)[:200]}')
                return res
            obsv.submit(snapshot(cur), 'obs_both'); jobs.append('loaded after overwriting')
            import shutil
            shutil.copy(path, 'model_snap0.yaml')      # the observer works asynchronously: it gets the file as it is NOW
            obsv.submit(None, 'obs_yaml', path=os.path.join(cwd, f'model_snap0/{name}')); jobs.append('pristine process, after overwriting')
            for key, val, *typed in sp.get('rewrites', []):
                try:
                    size0 = os.path.getsize(path)
                    if typed:
                        import numpy as np
                        bump('numpy_scalar_override')
                    cur.update_var(node_vars={key: np.float64(val) if typed else val})
                    cur.to_yaml(path)
                    applied[key] = val
                    if os.path.getsize(path) == size0:
                        bump('same_size_rewrite')
                    clear_frontend_caches()
                    cur = CircuitTemplate.from_yaml(f'model/{name}')
                except Exception as e:
                    obsv.collect()
                    V('L-recover', 'loud', type(e).__name__, f're-saving to the same path and loading raised {type(e).__name__}: {str(e)[:200]}')
                    return res
                obsv.submit(snapshot(cur), 'obs_both')
                obsv.submit(expected(), 'obs_both')
                jobs.append(('rewrite', key, val))
            snaps = obsv.collect()
            base = snaps[0]
            if base['scalar'].get('status') != 'ok':
                res['discard'] = f"model refused: {base['scalar'].get('exc')}: {str(base['scalar'].get('msg'))[:60]}"
                return res
            i = 1
            for j in jobs:
                if isinstance(j, str):
                    d = observe.diff(snaps[i], base, rtol=1e-12)
                    i += 1
                    if d:
                        loud = snaps[i - 1]['scalar'].get('status') != 'ok'
                        V('L-recover', 'loud' if loud else 'silent', 'overwrite',
                          f'model saved over a {"longer " if P.get("overwrote_longer_file") else ""}file at the same path ({j}) differs from the original: {d[:300]}')
                        return res
                else:
                    d = observe.diff(snaps[i], snaps[i + 1], rtol=1e-12)
                    i += 2
                    if d:
                        V('L-recover', 'silent', 'rewrite-same-path',
                          f'after {j[1]}={j[2]} was set, saved to the same path, caches cleared and the path loaded again, the '
                          f'model differs from the saved one: {d[:300]}')
                        return res
            res['nontrivial'] = True
            res['stats'] = {'generations': len(jobs)}
            return res
        for g in range(1, trace['gens'] + 1):
            path = f'gen{g}.yaml'
            if fault and fault['at_gen'] == g:
                from sim.faults import YamlIOFault
                res['faults_cfg']['yaml_io'] = 1
                fp_before = FP.fp_circuit(cur)
                try:
                    with YamlIOFault(1, fault['errno'], fault['short']) as yf:
                        cur.to_yaml(path)
                    if yf.fired:
                        V('L-torn', 'silent', 'swallowed', f'injected {fault["errno"]} during the save of generation {g} was swallowed')
                        break
                except OSError:
                    res['faults']['yaml_io'] = 1
                    bump('yaml_io')
                    if fault['short']:
                        bump('torn')
                d = FP.first_diff(fp_before, FP.fp_circuit(cur))
                if d:
                    V('L-torn', 'silent', 'template-changed', f'failed save of generation {g} changed the template: {d[:300]}')
                    break
                if os.path.exists(path):
                    # whatever the failed save left on the store: loading it either fails loudly or yields the model -
                    # never something else
                    clear_frontend_caches()
                    try:
                        torn = CircuitTemplate.from_yaml(f'gen{g}/{name}')
                        obsv.submit(snapshot(torn), 'obs_both')
                        jobs.append(('torn', g))
                        bump('torn_file_loaded')
                    except Exception:
                        bump('torn_file_refused')
                    clear_frontend_caches()
                # the store now may hold a torn file under that name: retry under the same name (overwrite)
            try:
                cur.to_yaml(path)
            except Exception as e:
                V('L-save', 'loud', type(e).__name__, f'to_yaml of generation {g} raised {type(e).__name__}: {str(e)[:200]}')
                break
            with open(path) as f:
                texts.append(f.read())
            obsv.submit(None, 'obs_yaml', path=os.path.join(cwd, f'gen{g}/{name}'))   # restart: pristine process loads the file
            jobs.append(g)
            clear_frontend_caches()                                                     # restart of this process' caches
            rf = (fault or {}).get('read')
            if rf and rf['at_gen'] == g:
                from sim.faults import YamlReadFault, InterruptAt
                from sim.spies import Interrupt
                res['faults_cfg']['load_' + rf['kind']] = 1
                try:
                    if rf['kind'] == 'oserror':
                        with YamlReadFault(rf['nth']) as yr:
                            CircuitTemplate.from_yaml(f'gen{g}/{name}')
                        if yr.fired:
                            V('L-torn', 'silent', 'read-error-swallowed', f'injected read error while loading generation {g} was swallowed')
                            break
                    else:
                        with InterruptAt(rf['n_call']) as ia:
                            CircuitTemplate.from_yaml(f'gen{g}/{name}')
                except (OSError, Interrupt):
                    res['faults']['load_' + rf['kind']] = 1
                    bump('load_failed_then_retried')
                    try:
                        again = CircuitTemplate.from_yaml(f'gen{g}/{name}')
                    except Exception as e:
                        V('L-recover', 'loud', type(e).__name__, f'loading generation {g} again after a load that failed half-way '
                                                                 f'({rf["kind"]}) raised {type(e).__name__}: {str(e)[:200]}')
                        break
                    obsv.submit(snapshot(again), 'obs_both')
                    jobs.append(g)
                    clear_frontend_caches()
                except Exception as e:
                    V('L-recover', 'loud', type(e).__name__, f'load of generation {g} under an injected read fault raised '
                                                             f'{type(e).__name__} instead of the I/O error: {str(e)[:200]}')
                    break
            try:
                cur = CircuitTemplate.from_yaml(f'gen{g}/{name}')
            except Exception as e:
                V('L-recover', 'loud', type(e).__name__, f'loading generation {g} raised {type(e).__name__}: {str(e)[:200]}')
                break
            rs = trace.get('restart')
            if rs:
                # modify the cached template object in place, restart, reload: the file is what counts
                try:
                    cur.update_var(node_vars=dict(rs['mutate']))
                    if rs['how'] == 'clear_model':
                        from pyrates import clear as pr_clear
                        pr_clear(cur)            # cur was never compiled in place: it holds no IR
                    else:
                        clear_frontend_caches()
                    cur = CircuitTemplate.from_yaml(f'gen{g}/{name}')
                except Exception as e:
                    V('L-recover', 'loud', type(e).__name__, f'restart/reload of generation {g} raised {type(e).__name__}: {str(e)[:200]}')
                    break
                obsv.submit(snapshot(cur), 'obs_both')
                jobs.append(('restart', g))
                bump('restart_' + rs['how'])
            if g >= 3:
                bump('gen>=3')
        snaps = obsv.collect()
        if res['violations']:
            return res
        base = snaps[0]
        if base['scalar'].get('status') != 'ok':
            res['discard'] = f"model refused: {base['scalar'].get('exc')}: {str(base['scalar'].get('msg'))[:60]}"
            return res
        if not any(e[2].get('delay') or e[2].get('spread') for e in _all_edges(spec)):
            # the model that is stored means what its definition says (reference semantics of the spec)
            import numpy as np
            from checks.c07 import C07
            v = C07._judge('model as defined', models.RefNet(copy.deepcopy(spec)), base, np)
            if v:
                V('L-define', v['cls'], 'definition-' + v['key'], v['detail'])
                return res
            bump('definition_vs_reference')
        for g, s in zip(jobs, snaps[1:]):
            d = observe.diff(s, base, rtol=1e-12)
            if d and isinstance(g, tuple) and g[0] == 'torn':
                if s['scalar'].get('status') != 'ok':
                    continue          # the torn file loads but does not compile: a loud failure, acceptable
                V('L-torn', 'silent', 'garbage-loaded', f'the file left by the failed save of generation {g[1]} loads as a '
                                                        f'different model: {d[:300]}')
                return res
            if d and isinstance(g, tuple):
                V('L-restart', 'silent', 'reload-after-clear',
                  f'after modifying the loaded template in place, {trace["restart"]["how"]} and loading generation {g[1]} again, '
                  f'the model differs from the stored one: {d[:300]}')
                return res
            if d:
                loud = s['scalar'].get('status') != 'ok'
                V('L-recover', 'loud' if loud else 'silent', f'generation-{min(g, 2)}',
                  f'model loaded from generation {g} differs from the original: {d[:300]}'
                  + (f' [{s["scalar"].get("exc")}: {s["scalar"].get("msg")}]' if loud else ''))
                return res
        for g in range(2, len(texts)):
            if texts[g] != texts[g - 1]:
                V('L-fixpoint', 'silent', 'file-text', f'file text of generation {g+1} differs from generation {g}')
                return res
        res['nontrivial'] = len(jobs) >= 1
        res['stats'] = {'generations': len(jobs)}
        return res

    def shrink(self, trace):
        if trace['mode'] == 'store':
            if trace['gens'] > 1:
                t = copy.deepcopy(trace)
                t['gens'] = 1
                if t.get('fault'):
                    t['fault']['at_gen'] = 1
                yield t
            if trace.get('fault'):
                yield with_key(trace, ['fault'], None)
        if trace['mode'] in ('store', 'dual'):
            spec = trace['spec']
            if spec.get('build') == 'yaml':
                yield with_key(trace, ['spec', 'build'], 'python')
            from checks.c03 import shrink_spec
            for t in shrink_spec({'spec': spec, 'cfg': {'input': None}}):
                t2 = copy.deepcopy(trace)
                t2['spec'] = t['spec']
                yield t2

    def known(self):
        def overrides(trace, v):
            if trace.get('mode') != 'store' or v['law'] not in ('L-recover',):
                return False
            spec = trace['spec']
            users = {}
            for nt in spec['nts'].values():
                for ok in nt['ops']:
                    users.setdefault(ok, []).append(json.dumps(nt.get('var', {}).get(ok, {}), sort_keys=True))
            used_nts = set(models.flatten(spec)[0].values())
            users = {}
            for k in used_nts:
                nt = spec['nts'][k]
                for ok in nt['ops']:
                    users.setdefault(ok, set()).add(json.dumps(nt.get('var', {}).get(ok, {}), sort_keys=True))
            return any(len(v_) > 1 for v_ in users.values())

        def ab(t):
            # every node template gets an operator of its own carrying its overrides as defaults
            spec = t['spec']
            new_ops = {}
            for k, nt in spec['nts'].items():
                ops2 = []
                for ok in nt['ops']:
                    nk = f'{ok}__{k}'
                    o = copy.deepcopy(spec['ops'][ok])
                    o['name'] = nk
                    o['defaults'] = {**models.LIB[o['lib']]['defaults'], **o.get('defaults', {}), **nt.get('var', {}).get(ok, {})}
                    new_ops[nk] = o
                    ops2.append(nk)
                nt['var'] = {}
                old = list(nt['ops'])
                nt['ops'] = ops2
                nt['_old'] = old
            # rewrite edge endpoints
            flat, _ = models.flatten(spec)

            def fix(s, prefix=''):
                for e in s.get('edges', []):
                    for j in (0, 1):
                        *node, opn, var = e[j].split('/')
                        ntk = flat.get(prefix + '/'.join(node))
                        if ntk:
                            e[j] = '/'.join(node + [spec['nts'][ntk]['ops'][0], var])
                for cn, sub in (s.get('circuits') or {}).items():
                    fix(sub, prefix + cn + '/')
            fix(spec)
            spec['ops'] = new_ops
            for nt in spec['nts'].values():
                nt.pop('_old', None)
            return t
        return [KF('KF-C15-shared-operator-overrides', overrides, ab)]


def _all_edges(spec):
    out = list(spec.get('edges', []))
    for sub in (spec.get('circuits') or {}).values():
        out += _all_edges(sub)
    return out


CHECK = C15()
