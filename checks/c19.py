"""C19 — DDEHistory returns the piecewise-linear interpolant of what it was given.

Stateful simulation of the real class: seeded update / query / caller-mutation / allocation-fault
histories, reference = bisect over a Python list (RefHist).  Tuning knob `_INITIAL_CAPACITY` is
randomised per run so that growth happens many times inside a short history.
"""
import math, bisect, copy, json
from sim.driver import Check, KF, digest
from sim.shrink import list_field_candidates, with_key

DTYPES = ['float64', 'float64', 'float32', 'complex128', 'int64']
SHAPES = [[], [1], [3], [2, 2], [5]]


def _val(rng, dtype):
    if dtype == 'complex128':
        return [round(rng.uniform(-3, 3), 6), round(rng.uniform(-3, 3), 6)]
    if dtype == 'int64':
        return rng.choice([rng.randint(-50, 50), round(rng.uniform(-50, 50), 3)])
    return round(rng.gauss(0, 2), 6) if rng.random() < 0.9 else rng.choice([0.0, 1e-12, -1e9, 3.0])


def _vec(rng, shape, dtype):
    n = 1
    for s in shape:
        n *= s
    return [_val(rng, dtype) for _ in range(n)]


class C19(Check):
    pid = 'C19'
    timeout = 30.0
    quick_runs = 20000
    thorough_budget_s = 600
    rule = ('one run = one seeded history of <=200 ops (update/query/caller-array mutation/alloc fault) on the real '
            'DDEHistory with a per-run _INITIAL_CAPACITY; distinct = distinct decision digest (sha256 of the trace); '
            'non-trivial = at least 2 successful updates, 1 interpolating query strictly between two records and '
            '(in growable strata) at least one buffer growth')
    components_real = ['pyrates.backend.base.base_backend.DDEHistory (update, _grow, __call__)', 'numpy']
    components_stubbed = ['none; the allocation fault is a subclass override of _grow that raises MemoryError '
                          'before/after delegating to the real _grow']
    assumptions = ['updates keep y0 dtype (documented); int histories truncate float updates like ndarray assignment',
                   'duplicate update times carry identical states (the pattern the real dopri5 driver produces)',
                   'float32 histories are compared with rtol 1e-5 (interpolation arithmetic in float32)']
    required_probes = {'thorough': ['grew', 'alloc', 'bounded_refused', 'query_after_growth', 'ulp_query']}

    def strata(self, tier):
        return [('S-grow', 5), ('S-bounded', 2), ('S-dup-times', 1), ('S-alloc-fault', 2), ('S-bad-update', 1), ('S-long', 0.5)]

    # ---------------------------------------------------------------- generation
    def generate(self, rng, stratum, tier):
        dtype = rng.choice(DTYPES)
        shape = rng.choice(SHAPES)
        cap = rng.choice([1, 1, 2, 3, 4, 5, 8, 1024])
        cfg = {'cap': cap, 'shape': shape, 'dtype': dtype, 't0': rng.choice([0.0, 0.0, -1.5, 2.0, 1e-3]),
               'y0': _vec(rng, shape, dtype), 'max_steps': None, 'alloc': None, 'mutate_y0': rng.random() < 0.5,
               'ctor': rng.choice(['keyword', 'positional']), 'clock': rng.choice(['float', 'float', 'array']),
               # the harness's own verification queries are operations on the object too: in half of the runs only the
               # scripted queries (and the final sweep) touch it, so query-side state cannot hide behind them
               'verify_each': rng.random() < 0.5}
        if stratum == 'S-bounded':
            cfg['max_steps'] = rng.choice([0, 1, 2, 3, 5, 8])
        if stratum == 'S-alloc-fault':
            cfg['cap'] = rng.choice([1, 2, 3, 4])
            cfg['alloc'] = {'at_grow': rng.randint(1, 4), 'phase': rng.choice(['before', 'after', 'line', 'line']),
                            'line': rng.randint(1, 6)}
        nops = rng.randint(3, 200 if tier == 'thorough' else 80)
        if stratum == 'S-long':
            # sizes that short histories never reach: 600-2300 records (search windows, several growths of the default buffer),
            # queries reaching back to the oldest records
            nops = rng.randint(700, 2600)
            cfg['cap'] = rng.choice([8, 1024, 1024])
            cfg['verify_each'] = False
        ts = [cfg['t0']]
        qs = []
        ops = []
        p_upd = rng.choice([0.3, 0.5, 0.7]) if stratum != 'S-long' else 0.9
        # a second live history of the same layout in the same process (what two models stepped alternately, or a kept
        # history of a finished run next to the next run's, look like): its operations are interleaved with the first's
        companion = rng.random() < 0.35
        cfg['keep_results'] = rng.random() < 0.6
        ts2 = None
        for _ in range(nops):
            if companion and rng.random() < 0.25:
                if ts2 is None:
                    ts2 = [cfg['t0']]
                    ops.append(['xnew', _vec(rng, shape, dtype)])
                elif rng.random() < 0.6:
                    ts2.append(ts2[-1] + rng.choice([1e-3, 0.1, rng.uniform(1e-3, 2.0)]))
                    ops.append(['xu', ts2[-1], _vec(rng, shape, dtype)])
                else:
                    ops.append(['xq', rng.uniform(ts2[0] - 0.5, ts2[-1] + 0.5)])
                continue
            if rng.random() < p_upd:
                if stratum == 'S-dup-times' and len(ops) and ops[-1][0] == 'u' and rng.random() < 0.3:
                    ops.append(['u', ops[-1][1], copy.deepcopy(ops[-1][2]), False])   # identical duplicate
                    ts.append(ops[-1][1])
                    continue
                step = rng.choice([1e-9, 1e-3, 0.1, rng.uniform(1e-3, 2.0)])
                t = ts[-1] + step
                if t <= ts[-1]:
                    t = math.nextafter(ts[-1], math.inf)
                if stratum in ('S-alloc-fault', 'S-bad-update') and rng.random() < (0.25 if stratum == 'S-bad-update' else 0.08):
                    # an update that must be REFUSED (unusable time or state argument): it raises and changes nothing
                    ops.append(['ubad', t, _vec(rng, shape, dtype), rng.choice(['none', 'str', 'arr2', 'badshape', 'badshape'])])
                    continue
                ops.append(['u', t, _vec(rng, shape, dtype), rng.random() < 0.6])
                ts.append(t)   # generator's belief; the executor keeps the authoritative record list
            else:
                k = rng.random()
                if qs and k < 0.12:
                    t = rng.choice(qs)
                elif qs and k < 0.30:
                    t = qs[-1]          # the same time again (what a multi-stage solver does), updates may lie between
                elif k < 0.40:
                    t = rng.choice(ts)
                elif k < 0.48:
                    t = ts[0] - rng.uniform(0, 3)
                elif k < 0.56:
                    t = ts[-1] + rng.uniform(0, 3)
                elif k < 0.68:
                    t = math.nextafter(rng.choice(ts), rng.choice([-math.inf, math.inf]))
                else:
                    t = rng.uniform(ts[0], ts[-1])
                qs.append(t)
                ops.append(['q', t])
        return {'config': cfg, 'ops': ops}

    # ---------------------------------------------------------------- execution (child)
    def execute(self, trace):
        import numpy as np
        from pyrates.backend.base.base_backend import DDEHistory
        cfg = trace['config']
        dtype = np.dtype(cfg['dtype'])
        shape = tuple(cfg['shape'])
        is_c = dtype.kind == 'c'
        probes = {}
        faults = {}

        def bump(d, k):
            d[k] = d.get(k, 0) + 1

        def arr(flat):
            if is_c:
                a = np.array([complex(x[0], x[1]) for x in flat], dtype=dtype)
            elif dtype.kind == 'i':
                a = np.array([int(x) for x in flat], dtype=dtype)   # trunc toward zero, like ndarray assignment
            else:
                a = np.array(flat, dtype=dtype)
            return a.reshape(shape)

        def stored(flat):
            """what a faithful history holds for this update: the value in the history's dtype, as Python scalars"""
            a = arr(flat)
            return [x.item() for x in a.reshape(-1)] if a.ndim else [a.item()]

        growths = [0]
        alloc = cfg.get('alloc')

        import sys as _sys

        class Interrupted(BaseException):
            pass

        class H(DDEHistory):
            _INITIAL_CAPACITY = cfg['cap']

            def _grow(self):
                growths[0] += 1
                bump(probes, 'grew')
                if alloc and growths[0] == alloc['at_grow']:
                    if alloc['phase'] == 'line':
                        # interruption at the k-th source line INSIDE the real _grow (sys.settrace line events)
                        target = DDEHistory._grow.__code__
                        state = {'n': 0}

                        def local(frame, event, arg):
                            if event == 'line':
                                state['n'] += 1
                                if state['n'] == alloc['line']:
                                    _sys.settrace(None)
                                    bump(faults, 'alloc_line')
                                    raise Interrupted(f'injected interruption at line {alloc["line"]} of _grow')
                            return local

                        def tracer(frame, event, arg):
                            if event == 'call' and frame.f_code is target:
                                return local
                            return None
                        _sys.settrace(tracer)
                        try:
                            DDEHistory._grow(self)
                        finally:
                            _sys.settrace(None)
                        return
                    bump(faults, 'alloc')
                    if alloc['phase'] == 'after':
                        DDEHistory._grow(self)
                    raise MemoryError('injected allocation fault in _grow')
                DDEHistory._grow(self)

        y0 = arr(cfg['y0'])
        # the caller's clock: a Python float, or ONE 0-d float64 array that the caller advances in place between calls (the
        # history must have taken the value, not the array)
        clock = np.array(float(cfg['t0'])) if cfg.get('clock') == 'array' else None

        def tm(t):
            if clock is None:
                return t
            clock[...] = t
            return clock
        if cfg.get('ctor') == 'positional':
            h = H(y0, tm(cfg['t0']), cfg['max_steps'])        # DDEHistory(y0, t0, max_steps): the documented order
            bump(probes, 'ctor_positional')
        else:
            h = H(y0, t0=tm(cfg['t0']), max_steps=cfg['max_steps'])
        if clock is not None:
            bump(probes, 'clock_array')
        ref_t = [float(cfg['t0'])]
        ref_y = [stored(cfg['y0'])]
        if cfg.get('mutate_y0') and y0.ndim:
            y0[...] = 77
        viol = []
        tol = 1e-5 if dtype == np.float32 else 1e-12

        scales = [None]   # per-component magnitude of the two neighbouring records (rounding scale)

        main = {'h': h, 't': ref_t, 'y': ref_y, 'name': 'history'}
        comp = [None]
        kept = []      # (returned array object itself, copy taken when it was returned, description)

        def check_kept(opi, why):
            for a, c, what in kept:
                if not np.array_equal(a, c):
                    viol.append({'law': 'L-result-stable', 'cls': 'silent', 'key': 'kept-result',
                                 'detail': f'op {opi} ({why}): the array returned earlier by {what} now reads '
                                           f'{np.asarray(a).reshape(-1).tolist()[:4]}, it was {np.asarray(c).reshape(-1).tolist()[:4]}'})
                    return

        def ref_query(t, S=None):
            ref_t, ref_y = (S or main)['t'], (S or main)['y']
            if t <= ref_t[0]:
                return ref_y[0], 'pre'
            if t >= ref_t[-1]:
                return ref_y[-1], 'post'
            i = bisect.bisect_right(ref_t, t) - 1
            if ref_t[i] == t:
                return ref_y[i], 'record'
            al = (t - ref_t[i]) / (ref_t[i + 1] - ref_t[i])
            scales[0] = [max(1.0, abs(a), abs(b)) for a, b in zip(ref_y[i], ref_y[i + 1])]
            return [a + al * (b - a) for a, b in zip(ref_y[i], ref_y[i + 1])], 'interp'

        def check_query(t, opi, why, S=None):
            S = S or main
            exp, kind = ref_query(t, S)
            try:
                ret = S['h'](t)
                got = np.asarray(ret)
            except Exception as e:
                viol.append({'law': 'L-query', 'cls': 'loud', 'key': kind,
                             'detail': f'op {opi} ({why}): query({t!r}) raised {type(e).__name__}: {e}'})
                return kind
            if got.shape != shape:
                viol.append({'law': 'L-query', 'cls': 'silent', 'key': 'shape',
                             'detail': f'op {opi} ({why}): query({t!r}) shape {got.shape} != {shape}'})
                return kind
            g = [x.item() for x in got.reshape(-1)] if got.ndim else [got.item()]
            for j, (a, b) in enumerate(zip(g, exp)):
                bad = (a != b) if kind != 'interp' else (abs(a - b) > 4 * tol * scales[0][j])
                if bad:
                    viol.append({'law': 'L-query', 'cls': 'silent', 'key': kind,
                                 'detail': f'op {opi} ({why}): {S["name"]} query({t!r}) = {g} expected {exp} '
                                           f'(records={len(S["t"])}, cap={cfg["cap"]}, growths={growths[0]})'})
                    break
            else:
                if cfg.get('keep_results') and isinstance(ret, np.ndarray) and len(kept) < 48 and why in ('query', 'companion-query'):
                    kept.append((ret, np.array(ret, copy=True), f'{S["name"]} query({t!r}) at op {opi}'))
                    bump(probes, 'kept_result')
            return kind

        def sweep(opi, why, S=None):
            S = S or main
            for t in list(S['t']):
                check_query(t, opi, why + ':records', S)
                if viol:
                    return
            for a, b in zip(S['t'], S['t'][1:]):
                if b > a:
                    check_query(a + 0.5 * (b - a), opi, why + ':midpoints', S)
                    if viol:
                        return
            check_kept(opi, why)

        n_ok_upd = 0
        n_interp = 0
        bounded = cfg['max_steps'] is not None
        capacity = max(int(cfg['max_steps']), 1) if bounded else None
        for opi, op in enumerate(trace['ops']):
            if viol:
                break
            if op[0] == 'u':
                _, t, flat, mutate = op
                if t < ref_t[-1]:
                    continue   # a shrunk trace may have lost monotonicity: skip, never feed decreasing times
                # the caller's array: own dtype, or (every other update) float64 that the history must cast
                if dtype.kind in 'if' and len(ref_t) % 2 == 0:
                    y = np.array(flat, dtype='float64').reshape(shape)
                else:
                    y = arr(flat)
                g_before = growths[0]
                expect_refuse = bounded and len(ref_t) >= capacity
                try:
                    h.update(tm(t), y)
                    raised = None
                except Interrupted as e:
                    # the update was interrupted inside _grow: it must not be half-applied, all earlier records intact
                    sweep(opi, 'after-interrupted-growth')
                    # the same update is retried (like a solver step repeated after Ctrl-C was handled)
                    try:
                        h.update(tm(t), y)
                    except Exception as e2:
                        viol.append({'law': 'L-update', 'cls': 'loud', 'key': 'retry-after-interrupt',
                                     'detail': f'op {opi}: update({t!r}) retried after an interrupted growth raised {type(e2).__name__}: {e2}'})
                        break
                    raised = None
                except (IndexError, MemoryError) as e:
                    raised = e
                except Exception as e:
                    viol.append({'law': 'L-update', 'cls': 'loud', 'key': type(e).__name__,
                                 'detail': f'op {opi}: update({t!r}) raised {type(e).__name__}: {e}'})
                    break
                injected = isinstance(raised, MemoryError)
                if injected:
                    # the failed update must not be half-applied: all earlier records intact, new one absent
                    sweep(opi, 'after-alloc-fault')
                    continue
                if expect_refuse:
                    bump(probes, 'bounded_refused')
                    if raised is None:
                        viol.append({'law': 'L-bounded', 'cls': 'silent', 'key': 'overwrite',
                                     'detail': f'op {opi}: update #{len(ref_t)} accepted by a history bounded to '
                                               f'{capacity} rows'})
                        break
                    sweep(opi, 'after-refusal')
                    continue
                if raised is not None:
                    viol.append({'law': 'L-update', 'cls': 'loud', 'key': type(raised).__name__,
                                 'detail': f'op {opi}: update({t!r}) raised {type(raised).__name__}: {raised} '
                                           f'(records={len(ref_t)}, bounded={bounded})'})
                    break
                ref_t.append(float(t))
                ref_y.append(stored(flat))
                n_ok_upd += 1
                if mutate and y.ndim:
                    y[...] = 99
                    bump(probes, 'caller_mutation')
                if cfg.get('verify_each', True):
                    if growths[0] > g_before:
                        sweep(opi, 'after-growth')
                    else:
                        check_query(t, opi, 'post-update')
                if kept and not viol:
                    check_kept(opi, 'after-update')
                if comp[0] is not None and not viol and len(comp[0]['t']) >= len(ref_t):
                    check_query(comp[0]['t'][len(ref_t) - 1], opi, 'second-history:after-update-of-first:same-row', comp[0])
            elif op[0] == 'xnew':
                class H2(DDEHistory):
                    _INITIAL_CAPACITY = cfg['cap']
                comp[0] = {'h': H2(arr(op[1]), t0=cfg['t0'], max_steps=cfg['max_steps']), 't': [float(cfg['t0'])],
                           'y': [stored(op[1])], 'name': 'second history'}
                bump(probes, 'companion')
                # constructing another history of the same layout changes nothing in the first
                sweep(opi, 'after-second-history-was-built')
            elif op[0] == 'xu':
                C = comp[0]
                if C is None or op[1] < C['t'][-1] or (bounded and len(C['t']) >= capacity):
                    continue
                try:
                    C['h'].update(op[1], arr(op[2]))
                except Exception as e:
                    viol.append({'law': 'L-update', 'cls': 'loud', 'key': type(e).__name__,
                                 'detail': f'op {opi}: second history update({op[1]!r}) raised {type(e).__name__}: {e}'})
                    break
                C['t'].append(float(op[1]))
                C['y'].append(stored(op[2]))
                bump(probes, 'companion_update')
                # an update of one history is invisible in the other: same-numbered record, last record, end values
                k_ = min(len(C['t']), len(ref_t)) - 1
                check_query(ref_t[k_], opi, 'after-update-of-second-history:same-row')
                if not viol:
                    check_query(ref_t[-1], opi, 'after-update-of-second-history:last')
                if not viol:
                    check_query(C['t'][-1], opi, 'second-history:post-update', C)
                check_kept(opi, 'after-update-of-second-history')
            elif op[0] == 'xq':
                if comp[0] is not None:
                    check_query(op[1], opi, 'companion-query', comp[0])
            elif op[0] == 'ubad':
                _, t, flat, how = op
                if t < ref_t[-1] or (bounded and len(ref_t) >= capacity):
                    continue
                y = arr(flat)
                targ = t
                if how == 'none':
                    targ = None
                elif how == 'str':
                    targ = 'soon'
                elif how == 'arr2':
                    targ = np.array([t, t])
                elif how == 'badshape':
                    y = np.zeros(tuple(shape) + (2,)) if shape else np.zeros((2,))
                bump(probes, 'bad_update')
                try:
                    h.update(targ, y)
                    viol.append({'law': 'L-update', 'cls': 'silent', 'key': 'bad-update-accepted',
                                 'detail': f'op {opi}: update with unusable argument ({how}) was accepted'})
                    break
                except (Exception, Interrupted):
                    bump(faults, 'bad_update')
                # a refused update changes nothing: every record and the end values are as before
                sweep(opi, f'after-refused-update({how})')
                if not viol:
                    check_query(ref_t[-1] + 1.0, opi, f'after-refused-update({how}):beyond')
                    check_query(t, opi, f'after-refused-update({how}):at-refused-time')
            else:
                t = op[1]
                kind = check_query(t, opi, 'query')
                if kind == 'interp':
                    n_interp += 1
                if growths[0]:
                    bump(probes, 'query_after_growth')
                for rt in ref_t:
                    if t != rt and (t == math.nextafter(rt, math.inf) or t == math.nextafter(rt, -math.inf)):
                        bump(probes, 'ulp_query')
                        break
        if not viol:
            sweep(len(trace['ops']), 'final')
        if not viol and comp[0] is not None:
            sweep(len(trace['ops']), 'final', comp[0])
        nontrivial = n_ok_upd >= 2 and n_interp >= 1 and (bounded or cfg['cap'] >= 1024 or growths[0] >= 1)
        return {'violations': viol, 'probes': probes, 'faults': faults,
                'faults_cfg': {'alloc': 1} if alloc else {},
                'stats': {'updates': n_ok_upd, 'interp_queries': n_interp, 'growths': growths[0],
                          'ops': len(trace['ops'])},
                'digest': digest([trace['config'], trace['ops']]), 'nontrivial': nontrivial,
                'sim_time': ref_t[-1] - ref_t[0]}

    # ---------------------------------------------------------------- minimisation
    def shrink(self, trace):
        yield from list_field_candidates(trace, ['ops'])
        cfg = trace['config']
        if cfg['alloc']:
            yield with_key(trace, ['config', 'alloc'], None)
        if cfg['shape']:
            t = copy.deepcopy(trace)
            t['config']['shape'] = []
            t['config']['y0'] = t['config']['y0'][:1]
            for op in t['ops']:
                if op[0] == 'u':
                    op[2] = op[2][:1]
            yield t
        if cfg['dtype'] != 'float64' and cfg['dtype'] != 'complex128':
            yield with_key(trace, ['config', 'dtype'], 'float64')
        if cfg['mutate_y0']:
            yield with_key(trace, ['config', 'mutate_y0'], False)
        if cfg.get('verify_each', True):
            yield with_key(trace, ['config', 'verify_each'], False)


CHECK = C19()
