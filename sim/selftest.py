"""Self-tests of the machinery.

selftest-determinism : every claimed check, N runs per check, executed (a) twice in this interpreter with 16 workers,
                       (b) once with 1 worker... (2 workers to keep it fast), (c) once in a fresh interpreter under another
                       PYTHONHASHSEED.  The per-run decision digest (trace) and outcome digest (violation signatures,
                       discard reason, non-triviality, counters) must be identical in all executions.
selftest-digest      : helper - prints the digests of one check as JSON (used for the fresh-interpreter leg).
selftest-sensitivity : applies every confirmed seeded change in /verif/seeded to a scratch copy of /repo on /dev/shm and
                       requires the owning check to report a violation whose replay reproduces; cleans up afterwards.
"""
import os, sys, json, hashlib, importlib, subprocess, shutil, time

VERIF = os.path.dirname(os.path.dirname(os.path.abspath(__file__)))
CHECKS = ['C03', 'C07', 'C08', 'C09', 'C10', 'C11', 'C13', 'C14', 'C15', 'C19']


def _outcome_digest(res):
    o = {'sigs': sorted([list(map(str, (v.get('law'), v.get('cls'), v.get('key')))) for v in res.get('violations', [])]),
         'discard': str(res.get('discard'))[:60] if res.get('discard') else None,
         'nontrivial': bool(res.get('nontrivial')),
         'stats': {k: v for k, v in sorted((res.get('stats') or {}).items())},
         'probes': {k: v for k, v in sorted((res.get('probes') or {}).items())},
         'faults': {k: v for k, v in sorted((res.get('faults') or {}).items())},
         'states': len(res.get('states') or [])}
    return hashlib.sha256(json.dumps(o, sort_keys=True).encode()).hexdigest()[:16]


def digests(pid, vseed, n, jobs):
    from sim.driver import make_trace, _exec_entry, digest
    from sim.pool import ForkPool
    mod = importlib.import_module(f'checks.{pid.lower()}')
    check = mod.CHECK
    check.prepare_parent()
    pool = ForkPool(jobs=jobs, timeout=check.timeout)
    traces = [make_trace(check, vseed, 'quick', i) for i in range(n)]
    out = [None] * n
    for tid, status, payload in pool.imap(_exec_entry, [(i, (check, t)) for i, t in enumerate(traces)]):
        if status != 'ok':
            out[tid] = (digest(traces[tid]), f'HARNESS:{status}')
        else:
            out[tid] = (digest(traces[tid]), _outcome_digest(payload))
    pool.cleanup()
    return out


def main(cmd, args):
    if cmd == 'selftest-digest':
        import pyrates  # noqa
        pid, n = os.environ['SELFTEST_ID'], int(os.environ.get('SELFTEST_N', '40'))
        print('DIGESTS ' + json.dumps(digests(pid, args.seed, n, args.jobs or 16)))
        return 0
    if cmd == 'selftest-determinism':
        import pyrates  # noqa
        n = int(os.environ.get('SELFTEST_N', '48'))
        bad = 0
        t0 = time.time()
        report = {}
        for pid in CHECKS:
            a = digests(pid, args.seed, n, 16)
            b = digests(pid, args.seed, n, 16)
            c = digests(pid, args.seed, n, 3)
            env = dict(os.environ, PYTHONHASHSEED='987654321', SELFTEST_ID=pid, SELFTEST_N=str(n))
            p = subprocess.run([os.path.join(VERIF, 'check'), 'selftest-digest', '--seed', str(args.seed)], env=env,
                               stdout=subprocess.PIPE, stderr=subprocess.STDOUT, timeout=1800)
            line = [l for l in p.stdout.decode().splitlines() if l.startswith('DIGESTS ')]
            d = [tuple(x) for x in json.loads(line[0][8:])] if line else None
            legs = {'same interpreter, second execution': b, '3 workers': c, 'fresh interpreter PYTHONHASHSEED=987654321': d}
            ok = True
            for name, leg in legs.items():
                if leg is None:
                    print(f'selftest-determinism {pid}: leg "{name}" produced no digests\n{p.stdout.decode()[-800:]}')
                    ok = False
                    continue
                diff = [i for i in range(n) if tuple(a[i]) != tuple(leg[i])]
                if diff:
                    ok = False
                    print(f'selftest-determinism {pid}: leg "{name}" differs at runs {diff[:8]} '
                          f'(trace digest equal: {[a[i][0] == leg[i][0] for i in diff[:8]]})')
            harness = [i for i in range(n) if str(a[i][1]).startswith('HARNESS')]
            if harness:
                ok = False
                print(f'selftest-determinism {pid}: harness errors at runs {harness[:8]}')
            report[pid] = {'runs': n, 'executions': 4, 'identical': ok}
            print(f'selftest-determinism {pid}: {"OK" if ok else "MISMATCH"} ({n} runs x 4 executions)')
            bad += 0 if ok else 1
        os.makedirs(os.path.join(VERIF, 'evidence'), exist_ok=True)
        with open(os.path.join(VERIF, 'evidence', 'selftest-determinism.json'), 'w') as f:
            json.dump({'seed': args.seed, 'wall_s': round(time.time() - t0, 1), 'checks': report,
                       'legs': ['16 workers', '16 workers again', '3 workers', 'fresh interpreter, PYTHONHASHSEED=987654321']},
                      f, indent=1)
        return 0 if bad == 0 else 2
    if cmd == 'selftest-sensitivity':
        seeded = os.path.join(VERIF, 'seeded')
        missed = []
        rows = []
        only = [x for x in os.environ.get('SELFTEST_ONLY', '').split(',') if x]
        for sid in sorted(os.listdir(seeded)):
            if only and sid not in only:
                continue
            mp = os.path.join(seeded, sid, 'meta.json')
            if not os.path.exists(mp):
                continue
            m = json.load(open(mp))
            if not m.get('verified', {}).get('ok'):
                continue
            if m.get('not_caught'):
                print(f'selftest-sensitivity {sid}: NOT CAUGHT (documented): {m["not_caught"][:160]}')
                continue
            owner = m.get('detect_with') or m['property']
            scratch = f'/dev/shm/sens_{sid}'
            shutil.rmtree(scratch, ignore_errors=True)
            os.makedirs(scratch)
            try:
                subprocess.run(f'git -C /repo archive HEAD pyrates model_templates | tar -x -C {scratch}', shell=True, check=True)
                r = subprocess.run(f'git init -q . && git apply {seeded}/{sid}/patch.diff', shell=True, cwd=scratch,
                                   stdout=subprocess.PIPE, stderr=subprocess.STDOUT)
                if r.returncode != 0:
                    print(f'selftest-sensitivity {sid}: patch does not apply to the current tree: {r.stdout.decode()[-300:]}')
                    missed.append(sid)
                    continue
                env = dict(os.environ, VERIF_REPO=scratch)
                env.pop('SELFTEST_ID', None)
                ev = os.path.join(VERIF, 'evidence', f'{owner}.json')
                keep = open(ev).read() if os.path.exists(ev) else None
                p = subprocess.run([os.path.join(VERIF, 'check'), owner, '--tier', 'quick', '--seed', str(args.seed)], env=env,
                                   stdout=subprocess.PIPE, stderr=subprocess.STDOUT, timeout=3600)
                out = p.stdout.decode()
                vio = [l for l in out.splitlines() if l.startswith('VIOLATION')]
                ok = p.returncode == 1 and bool(vio)
                if ok:   # the replay must reproduce on the mutated tree and not on the real one
                    path = vio[0].split('replay=')[1].strip()
                    p2 = subprocess.run([os.path.join(VERIF, 'check'), owner, '--replay', path], env=env, stdout=subprocess.PIPE,
                                        stderr=subprocess.STDOUT, timeout=600)
                    env3 = dict(os.environ)
                    env3.pop('VERIF_REPO', None)
                    p3 = subprocess.run([os.path.join(VERIF, 'check'), owner, '--replay', path], env=env3, stdout=subprocess.PIPE,
                                        stderr=subprocess.STDOUT, timeout=600)
                    ok = p2.returncode == 1 and p3.returncode == 0
                    if not ok:
                        print(f'selftest-sensitivity {sid}: replay on the changed tree exit {p2.returncode}, on the real tree exit '
                              f'{p3.returncode}: {p3.stdout.decode()[-300:] if p3.returncode else p2.stdout.decode()[-300:]}')
                    if not ok and os.environ.get('SELFTEST_KEEP'):
                        os.makedirs(os.environ['SELFTEST_KEEP'], exist_ok=True)
                        shutil.copy(path, os.environ['SELFTEST_KEEP'])
                    os.remove(path)
                if keep is not None:
                    open(ev, 'w').write(keep)
                rows.append((sid, owner, ok))
                print(f'selftest-sensitivity {sid}: {"DETECTED by " + owner + " (replay reproduces)" if ok else "MISSED by " + owner}')
                if not ok:
                    missed.append(sid)
            finally:
                shutil.rmtree(scratch, ignore_errors=True)
        print(f'selftest-sensitivity: {len(rows) - len([r for r in rows if not r[2]])}/{len(rows)} seeded changes detected')
        return 0 if not missed else 2
    print('unknown selftest', cmd)
    return 2
