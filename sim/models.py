"""Workload model library: JSON model specs, seeded generators, builders (Python classes / YAML text) and the
pure-Python reference semantics (RefNet).  RefNet is assembled from the spec alone, never from PyRates objects.

Spec (JSON):
 {"name": "c", "build": "python"|"yaml",
  "ops":   {opkey: {"lib": "lin", "name": "lin_0", "defaults": {"x": 0.5, "a": 2.0}}},
  "nts":   {ntkey: {"name": "nt0", "ops": [opkey, ...], "var": {opkey: {"a": 4.0}}}},
  "nodes": {"p1": ntkey, ...}            (flat)   or
  "circuits": {"ca": <spec-without-ops/nts>, ...} (hierarchical; ops/nts live at the top level)
  "edges": [[src, tgt, {"weight": w, "delay": d|None, "spread": s|None}], ...]}   paths relative to this level
Object identity: one OperatorTemplate per opkey, one NodeTemplate per ntkey.
"""
import math, copy

# ----------------------------------------------------------------------------------------------------------
# operator library: equations, variable kinds, reference right-hand side
# ----------------------------------------------------------------------------------------------------------
LIB = {
    'lin':   {'eqs': ["x' = -a*x + u"], 'state': ['x'], 'const': ['a'], 'in': 'u', 'out': 'x',
              'defaults': {'x': 0.5, 'a': 2.0}},
    # the lin operator with the input subtracted: same variables, same argument list, another formula
    'linm':  {'eqs': ["x' = -a*x - u"], 'state': ['x'], 'const': ['a'], 'in': 'u', 'out': 'x',
              'defaults': {'x': 0.5, 'a': 2.0}},
    'sat':   {'eqs': ["x' = (-x + tanh(g*u + b))/tau"], 'state': ['x'], 'const': ['g', 'b', 'tau'], 'in': 'u',
              'out': 'x', 'defaults': {'x': 0.1, 'g': 1.5, 'b': 0.2, 'tau': 0.5}},
    'integ': {'eqs': ["x' = u"], 'state': ['x'], 'const': [], 'in': 'u', 'out': 'x', 'defaults': {'x': 0.0}},
    'osc':   {'eqs': ["v' = w", "w' = -k*v - c*w + u"], 'state': ['v', 'w'], 'const': ['k', 'c'], 'in': 'u',
              'out': 'v', 'defaults': {'v': 1.0, 'w': 0.0, 'k': 4.0, 'c': 0.3}},
    'leak':  {'eqs': ["x' = -a*x + b*u"], 'state': ['x'], 'const': ['a', 'b'], 'in': 'u', 'out': 'x',
              'defaults': {'x': 0.5, 'a': 2.0, 'b': 1.0}},
    # the lin operator with long identifiers (code generation orders some things by name / name length)
    'linl':  {'eqs': ["membrane_x' = -decay_rate_a*membrane_x + input_drive_ext"], 'state': ['membrane_x'],
              'const': ['decay_rate_a'], 'in': 'input_drive_ext', 'out': 'membrane_x',
              'defaults': {'membrane_x': 0.5, 'decay_rate_a': 2.0}},
    # complex-valued state (run with float_precision='complex128'); spec values of z are [re, im] pairs
    'cz':    {'eqs': ["z' = (ic*om - dl)*z + u"], 'state': ['z'], 'const': ['om', 'dl'], 'in': 'u', 'out': 'z',
              'defaults': {'z': [0.5, 0.25], 'om': 3.0, 'dl': 0.5}, 'complex': True},
    'cdd':   {'eqs': ["z' = (ic*om - dl)*z - a*past(z, tau) + u"], 'state': ['z'], 'const': ['om', 'dl', 'a', 'tau'], 'in': 'u',
              'out': 'z', 'defaults': {'z': [0.5, 0.25], 'om': 3.0, 'dl': 0.5, 'a': 1.0, 'tau': 0.05}, 'complex': True, 'dde': True},
    # delayed self-coupling in both notations (one delayed term per operator: forms with two are refused loudly today)
    'dd':    {'eqs': ["x' = -a*past(x, tau) + c*x + u"], 'state': ['x'], 'const': ['a', 'c', 'tau'], 'in': 'u', 'out': 'x',
              'defaults': {'x': 1.0, 'a': 2.0, 'c': 0.25, 'tau': 0.05}, 'dde': True},
    'ddt':   {'eqs': ["x' = -a*x(t-tau) + c*x + u"], 'state': ['x'], 'const': ['a', 'c', 'tau'], 'in': 'u', 'out': 'x',
              'defaults': {'x': 1.0, 'a': 2.0, 'c': 0.25, 'tau': 0.05}, 'dde': True},
    # operator with a large array-valued constant (dict-form variable definition): w = zeros(1500), w[700] = wmid
    'tab':   {'eqs': ["x' = -a*x + u + mean(w)"], 'state': ['x'], 'const': ['a', 'wmid'], 'in': 'u', 'out': 'x',
              'defaults': {'x': 0.5, 'a': 2.0, 'wmid': 1500.0}, 'array': True},
    # second-stage ("readout") operator of a MULTI-OPERATOR node: reads the output variable of the node's first operator by
    # name (PyRates wires same-named output -> input variables of the operators of one node); its equation text depends
    # on that name (spec op entry carries 'reads': <variable name>); no extrinsic input of its own
    'rd':    {'eqs': None, 'state': ['q'], 'const': ['kq', 'gq'], 'in': None, 'out': 'q',
              'defaults': {'q': 0.0, 'kq': 1.0, 'gq': 0.5}, 'reads': True},
    # readout with an edge input of its own: two input variables (the summed sibling variable and z_in)
    'rd2':   {'eqs': None, 'state': ['q'], 'const': ['kq', 'gq'], 'in': 'z_in', 'out': 'q',
              'defaults': {'q': 0.0, 'kq': 1.0, 'gq': 0.5}, 'reads': True},
    # second EMITTER of a multi-operator node: an operator whose output variable carries the same name (x) as the node's first
    # operator's; an operator that reads x then receives the SUM of both (PyRates sums same-named outputs)
    'em':    {'eqs': ["x' = -ae*x + ce"], 'state': ['x'], 'const': ['ae', 'ce'], 'in': None, 'out': 'x',
              'defaults': {'x': 0.0, 'ae': 1.0, 'ce': 0.5}},
    # deliberately malformed operators (F-badop: an API call that legitimately fails in the middle of a history)
    'bad_undecl': {'eqs': ["x' = -a*x + u + zz"], 'state': ['x'], 'const': ['a'], 'in': 'u', 'out': 'x',
                   'defaults': {'x': 0.5, 'a': 2.0}},
    'bad_2out': {'eqs': ["v' = w", "w' = -k*v + u"], 'state': ['v', 'w'], 'const': ['k'], 'in': 'u', 'out': 'v',
                 'defaults': {'v': 1.0, 'w': 0.0, 'k': 4.0}, 'all_out': True},
}


# edge templates (coupling operators evaluated on the edge): s_e is fed by the edge's source; s_t (ecoup) is wired
# explicitly to another node variable through a string attribute of the edge
ELIB = {
    'egain': {'eqs': ["m = kk*tanh(s_e)"], 'wired': False},
    'ecoup': {'eqs': ["m = kk*(s_e - s_t)"], 'wired': True},
    # affine coupling: f(0) != 0 (what a delayed edge delivers before its delay has elapsed must still be 0)
    'eaff':  {'eqs': ["m = kk*s_e + kk"], 'wired': False},
}


def op_eqs(o):
    """equations of a spec operator entry"""
    if o['lib'] == 'rd':
        return [f"q' = -kq*q + gq*{o['reads']}"]
    if o['lib'] == 'rd2':
        return [f"q' = -kq*q + gq*{o['reads']} + z_in"]
    eqs = list(LIB[o['lib']]['eqs'])
    return eqs[::-1] if o.get('eq_rev') else eqs      # the same equations written in the opposite order


def edge_value(attrs, ets, y, src):
    """what an edge delivers (before delay): weight * f(source[, wired variable])"""
    w = attrs.get('weight', 1.0)
    if not attrs.get('et'):
        return w * y[src]
    et = ets[attrs['et']]
    kk = attrs.get('kk', et.get('kk', 0.5))
    if et['lib'] == 'egain':
        return w * kk * math.tanh(y[src])
    if et['lib'] == 'eaff':
        return w * (kk * y[src] + kk)
    return w * kk * (y[src] - y[attrs['wire']])


def cval(v):
    """spec value -> Python number ([re, im] pairs stand for complex numbers)"""
    return complex(v[0], v[1]) if isinstance(v, (list, tuple)) else v


def ref_rhs(lib, p, s, u, past=None):
    """derivatives of operator `lib` with parameters p, state s (dicts) and summed input u;
    past(var, delay) -> value of this operator's state variable `var` at time now - delay (DDE operators)"""
    if lib in ('dd', 'ddt'):
        return {'x': -p['a'] * past('x', p['tau']) + p['c'] * s['x'] + u}
    if lib == 'cdd':
        return {'z': (1j * p['om'] - p['dl']) * s['z'] - p['a'] * past('z', p['tau']) + u}
    if lib == 'lin':
        return {'x': -p['a'] * s['x'] + u}
    if lib == 'linm':
        return {'x': -p['a'] * s['x'] - u}
    if lib == 'rd':
        return {'q': -p['kq'] * s['q'] + p['gq'] * u}        # u = value of the variable it reads (same node, first operator)
    if lib == 'em':
        return {'x': -p['ae'] * s['x'] + p['ce']}
    if lib == 'rd2':
        return {'q': -p['kq'] * s['q'] + u}                  # u = gq * (summed sibling variable) + edges into z_in
    if lib == 'cz':
        return {'z': (1j * p['om'] - p['dl']) * s['z'] + u}
    if lib == 'linl':
        return {'membrane_x': -p['decay_rate_a'] * s['membrane_x'] + u}
    if lib == 'sat':
        return {'x': (-s['x'] + math.tanh(p['g'] * u + p['b'])) / p['tau']}
    if lib == 'integ':
        return {'x': u}
    if lib == 'osc':
        return {'v': s['w'], 'w': -p['k'] * s['v'] - p['c'] * s['w'] + u}
    if lib == 'leak':
        return {'x': -p['a'] * s['x'] + p['b'] * u}
    if lib == 'tab':
        return {'x': -p['a'] * s['x'] + u + p['wmid'] / 1500.0}
    raise KeyError(lib)


def recover_input(lib, p, s, r):
    """invert ref_rhs for the summed input u given the derivative dict r (exact for lin/integ/osc/leak)"""
    if lib == 'lin':
        return r['x'] + p['a'] * s['x']
    if lib == 'linm':
        return -(r['x'] + p['a'] * s['x'])
    if lib == 'rd':
        return (r['q'] + p['kq'] * s['q']) / p['gq']
    if lib == 'em':
        return r['x'] + p['ae'] * s['x'] - p['ce']          # (takes no input: 0 for a faithful evaluation)
    if lib == 'rd2':
        return r['q'] + p['kq'] * s['q']
    if lib == 'cz':
        return r['z'] - (1j * p['om'] - p['dl']) * s['z']
    if lib == 'linl':
        return r['membrane_x'] + p['decay_rate_a'] * s['membrane_x']
    if lib == 'integ':
        return r['x']
    if lib == 'osc':
        return r['w'] + p['k'] * s['v'] + p['c'] * s['w']
    if lib == 'leak':
        return (r['x'] + p['a'] * s['x']) / p['b']
    if lib == 'sat':
        z = r['x'] * p['tau'] + s['x']
        z = min(max(z, -1 + 1e-15), 1 - 1e-15)
        return (math.atanh(z) - p['b']) / p['g']
    raise KeyError(lib)


# ----------------------------------------------------------------------------------------------------------
# flattening a spec: node paths, per-node operator instances, edges with absolute paths
# ----------------------------------------------------------------------------------------------------------
def flatten(spec, top=None, prefix=''):
    """-> (nodes: {path: ntkey}, edges: [[src, tgt, attrs]]) with absolute paths, in PyRates' own node order
    (sub-circuits in declaration order, nodes in declaration order)."""
    nodes, edges = {}, []
    if spec.get('circuits'):
        for cname, sub in spec['circuits'].items():
            n2, e2 = flatten(sub, top, prefix + cname + '/')
            nodes.update(n2)
            edges += e2
    else:
        for n, nt in spec.get('nodes', {}).items():
            nodes[prefix + n] = nt
    for s, t, a in spec.get('edges', []):
        a = dict(a)
        if a.get('wire'):
            a['wire'] = prefix + a['wire']
        edges.append([prefix + s, prefix + t, a])
    return nodes, edges


class RefNet:
    """reference semantics of a spec: named state, named parameters, vector field by plain loops"""

    def __init__(self, spec):
        self.spec = sync_twins(spec)
        self.nodes, self.edges = flatten(spec)
        self.inst = {}     # (node, opname) -> {'lib', 'p': {...}, 's0': {...}}
        for node, ntk in self.nodes.items():
            nt = spec['nts'][ntk]
            for opk in nt['ops']:
                op = spec['ops'][opk]
                vals = dict(LIB[op['lib']]['defaults'])
                vals.update(op.get('defaults', {}))
                vals.update(nt.get('var', {}).get(opk, {}))
                L = LIB[op['lib']]
                self.inst[(node, op['name'])] = {'lib': op['lib'], 'p': {k: cval(vals[k]) for k in L['const']},
                                                 's0': {k: cval(vals[k]) for k in L['state']}}
                if op['lib'] in ('rd', 'rd2'):
                    first = spec['ops'][nt['ops'][0]]
                    self.inst[(node, op['name'])]['reads'] = f"{node}/{first['name']}/{op['reads']}"
                    # further operators of the node that emit the same variable: the readout receives the sum
                    self.inst[(node, op['name'])]['reads_more'] = [
                        f"{node}/{spec['ops'][ok_]['name']}/x" for ok_ in nt['ops'][1:] if spec['ops'][ok_]['lib'] == 'em']
        self.state_names = [f'{n}/{o}/{v}' for (n, o), i in self.inst.items() for v in LIB[i['lib']]['state']]

    def clone_node(self, src, new):
        """a further node that carries src's node template as it is NOW (values included); no edges"""
        import copy as _copy
        self.nodes[new] = self.nodes[src]
        for (n, o), i in list(self.inst.items()):
            if n == src:
                self.inst[(new, o)] = _copy.deepcopy(i)
                if 'reads' in i:       # a readout operator reads its OWN node's operators
                    self.inst[(new, o)]['reads'] = new + i['reads'][len(src):]
                    self.inst[(new, o)]['reads_more'] = [new + r_[len(src):] for r_ in i.get('reads_more', [])]
        self.state_names = [f'{n}/{o}/{v}' for (n, o), i in self.inst.items() for v in LIB[i['lib']]['state']]

    def set_value(self, node, opname, var, val):
        i = self.inst[(node, opname)]
        (i['p'] if var in i['p'] else i['s0'])[var] = val

    def y0(self):
        return {f'{n}/{o}/{v}': i['s0'][v] for (n, o), i in self.inst.items() for v in LIB[i['lib']]['state']}

    def params(self):
        return {f'{n}/{o}/{v}': val for (n, o), i in self.inst.items() for v, val in i['p'].items()}

    def undelayed_input(self, y, node, opname, skip_delayed=True):
        if self.inst[(node, opname)]['lib'] == 'rd':
            i_ = self.inst[(node, opname)]      # what a readout operator receives: the (summed) variable of its siblings
            return y[i_['reads']] + sum(y[r_] for r_ in i_.get('reads_more', []))
        u = 0.0
        if self.inst[(node, opname)]['lib'] == 'rd2':
            i_ = self.inst[(node, opname)]
            u = i_['p']['gq'] * (y[i_['reads']] + sum(y[r_] for r_ in i_.get('reads_more', [])))
        for s, t, a in self.edges:
            if t == f"{node}/{opname}/{LIB[self.inst[(node, opname)]['lib']]['in']}":
                if skip_delayed and (a.get('delay') or a.get('spread')):
                    continue
                u += edge_value(a, self.spec.get('ets', {}), y, s)
        return u

    def rhs(self, y, extra=None, past=None):
        """y: {state name: value}; extra: {(node, opname): additional input}; past(state name, delay) -> value of that
        state variable `delay` time units ago.  Without `past` only undelayed edges contribute."""
        out = {}
        for (n, o), i in self.inst.items():
            if i['lib'] == 'rd':
                out[f'{n}/{o}/q'] = ref_rhs('rd', i['p'], {'q': y[f'{n}/{o}/q']},
                                            self.undelayed_input(y, n, o) + (extra or {}).get((n, o), 0.0))['q']
                continue
            u = self.undelayed_input(y, n, o) + (extra or {}).get((n, o), 0.0)
            if past is not None:
                tgt = f"{n}/{o}/{LIB[i['lib']]['in']}"
                for s_, t_, a in self.edges:
                    if t_ == tgt and a.get('delay') and not a.get('spread'):
                        u += a.get('weight', 1.0) * past(s_, a['delay'])
            s = {v: y[f'{n}/{o}/{v}'] for v in LIB[i['lib']]['state']}
            pf = (lambda var, d, n=n, o=o: past(f'{n}/{o}/{var}', d)) if past is not None else None
            for v, d in ref_rhs(i['lib'], i['p'], s, u, pf).items():
                out[f'{n}/{o}/{v}'] = d
        return out

    def recover_inputs(self, y, r):
        """summed input every operator instance must have received for the derivative r at state y"""
        out = {}
        for (n, o), i in self.inst.items():
            s = {v: y[f'{n}/{o}/{v}'] for v in LIB[i['lib']]['state']}
            rr = {v: r[f'{n}/{o}/{v}'] for v in LIB[i['lib']]['state']}
            out[(n, o)] = recover_input(i['lib'], i['p'], s, rr)
        return out


def ref_euler(net, dt, steps, extra_at=None):
    y = net.y0()
    traj = [dict(y)]
    for k in range(steps):
        r = net.rhs(y, extra_at(k, traj) if extra_at else None)
        y = {n: y[n] + dt * r[n] for n in y}
        traj.append(dict(y))
    return traj


def ref_heun(net, dt, steps, extra_at=None):
    y = net.y0()
    traj = [dict(y)]
    for k in range(steps):
        e = extra_at(k, traj) if extra_at else None
        r1 = net.rhs(y, e)
        yp = {n: y[n] + dt * r1[n] for n in y}
        r2 = net.rhs(yp, e)
        y = {n: y[n] + dt / 2 * (r1[n] + r2[n]) for n in y}
        traj.append(dict(y))
    return traj


# ----------------------------------------------------------------------------------------------------------
# seeded generator
# ----------------------------------------------------------------------------------------------------------
NAMEPOOL = ['p0', 'p1', 'p2', 'p3', 'p4', 'p5', 'p10', 'p11', 'pc', 'ein', 'iin', 'exc', 'inh', 'a1', 'bb', 'n2', 'n10',
            'zz', 'E', 'q_3']


def node_names(rng, n):
    """node keys whose declaration order is (usually) NOT lexicographic: order-sensitive wiring must follow the
    declaration order, not a sorted one"""
    if rng.random() < 0.25 or n > len(NAMEPOOL):
        return [f'p{i}' for i in range(n)]
    return rng.sample(NAMEPOOL, n)


def _grid(rng, lo, hi, q):
    """a value on the grid k/q in [lo, hi] (exactly representable in float32 for q a power of two)"""
    return rng.randint(int(lo * q), int(hi * q)) / q


def gen_net(rng, n_nodes=None, libs=('lin', 'sat', 'osc', 'leak', 'integ', 'linl'), max_edges=6, uniq='',
            hier=False, build=None, delays=None, own_nt=True, stable=True, per_node_ops=False, readouts=None, bare=0.0):
    """flat (or two-level) circuit; every node has its own parameter values and every state variable a distinct
    initial value, so that positions and trajectories are attributable by value.
    delays: None or callable(rng) -> attrs dict fragment for an edge ({'delay':..,'spread':..})."""
    n = n_nodes or rng.randint(1, 6)
    kinds = [rng.choice(libs) for _ in range(rng.randint(1, min(3, len(libs))))]
    spec = {'name': 'c' + uniq, 'build': build or rng.choice(['python', 'yaml']), 'ops': {}, 'nts': {}, 'edges': []}
    for k in sorted(set(kinds)):
        spec['ops'][k + uniq] = {'lib': k, 'name': k + uniq, 'defaults': dict(LIB[k]['defaults'])}
        if rng.random() < 0.3 and not LIB[k].get('array') and not LIB[k].get('complex'):
            spec['ops'][k + uniq]['decl'] = 'dict'      # variables declared as definition dicts (Python builds only)
        elif bare and not per_node_ops and rng.random() < bare and not LIB[k].get('array') and not LIB[k].get('complex'):
            # state variables declared bare ('x: output'): their values come from the per-node overrides only
            spec['ops'][k + uniq]['decl'] = 'bare'
            for s_ in LIB[k]['state']:
                spec['ops'][k + uniq]['defaults'][s_] = 0.0
    if any(LIB[k].get('complex') for k in kinds):
        spec['build'] = 'python'          # complex literals in node-level variations are a Python-frontend matter here
    pk = 1 if n <= 40 else (4 if n <= 160 else 8)       # more distinct initial values for very large models (finer grid)
    pool = list(range(-96 * pk, 96 * pk + 1))
    rng.shuffle(pool)
    pq = 64 * pk
    names = node_names(rng, n)
    node_kind = {}
    readout_of = {}
    nodes = {}
    for i, nm in enumerate(names):
        k = rng.choice(kinds)
        node_kind[nm] = k
        var = {}
        for c in LIB[k]['const']:
            if c == 'wmid':
                continue   # array constant: lives in the operator's own defaults
            if c in ('a', 'k', 'c', 'tau', 'decay_rate_a'):
                var[c] = _grid(rng, 0.25, 3.0, 16)
            else:
                var[c] = _grid(rng, -2.0, 2.0, 16) or 0.5
        for s in LIB[k]['state']:
            var[s] = pool.pop() / pq
            if LIB[k].get('complex'):
                var[s] = [var[s], pool.pop() / pq]
        if per_node_ops:
            # every node has an operator of its own carrying its values as defaults; node templates without overrides
            okey = f'{k}{i}{uniq}'
            spec['ops'][okey] = {'lib': k, 'name': okey, 'defaults': {**LIB[k]['defaults'], **var}}
            spec['nts'][f'nt{i}{uniq}'] = {'name': f'nt{i}{uniq}', 'ops': [okey], 'var': {}}
            node_kind[nm] = (k, okey)
        else:
            spec['nts'][f'nt{i}{uniq}'] = {'name': f'nt{i}{uniq}', 'ops': [k + uniq], 'var': {k + uniq: var}}
        nodes[nm] = f'nt{i}{uniq}'
        if readouts and not LIB[k].get('complex') and not LIB[k].get('dde') and rng.random() < readouts[0]:
            # MULTI-OPERATOR node: a readout operator behind the first one (with its own values, or - second number of
            # `readouts` - without any override: an empty per-operator entry next to a non-empty one)
            two = len(readouts) > 3 and rng.random() < readouts[3]     # readout with a second (edge) input
            rlib = 'rd2' if two else 'rd'
            rk = f'{rlib}{i}{uniq}' if per_node_ops else f'{rlib}_{k}{uniq}'
            rvar = {'kq': _grid(rng, 0.25, 3.0, 16), 'gq': _grid(rng, -2.0, 2.0, 16) or 0.5, 'q': pool.pop() / pq}
            nt_ = spec['nts'][f'nt{i}{uniq}']
            if per_node_ops:
                spec['ops'][rk] = {'lib': rlib, 'name': rk, 'reads': LIB[k]['out'], 'defaults': {**LIB['rd']['defaults'], **rvar}}
            else:
                spec['ops'].setdefault(rk, {'lib': rlib, 'name': rk, 'reads': LIB[k]['out'], 'defaults': dict(LIB['rd']['defaults'])})
                if rng.random() >= readouts[1]:
                    nt_['var'][rk] = rvar
            if len(readouts) > 2 and LIB[k]['out'] == 'x' and rng.random() < readouts[2]:
                # a second emitter of x between the first operator and the readout
                ek = f'em{i}{uniq}' if per_node_ops else f'em{uniq}'
                evar = {'ae': _grid(rng, 0.25, 3.0, 16), 'ce': _grid(rng, -2.0, 2.0, 16) or 0.5, 'x': pool.pop() / pq}
                if per_node_ops:
                    spec['ops'][ek] = {'lib': 'em', 'name': ek, 'defaults': {**LIB['em']['defaults'], **evar}}
                else:
                    spec['ops'].setdefault(ek, {'lib': 'em', 'name': ek, 'defaults': dict(LIB['em']['defaults'])})
                    nt_['var'][ek] = evar
                nt_['ops'].append(ek)
            nt_['ops'].append(rk)
            readout_of[nm] = rk
    def mk_edges(level_names, prefix_of, m):
        out, seen = [], set()
        for _ in range(m):
            s, t = rng.choice(level_names), rng.choice(level_names)
            sk, tk = node_kind[s.split('/')[-1]], node_kind[t.split('/')[-1]]
            key = (s, t)
            if key in seen:
                continue
            seen.add(key)
            a = {'weight': (_grid(rng, -2.0, 2.0, 32) or 0.75) if rng.random() > 0.07 else 0.0}   # exactly 0 is legal
            if delays:
                a.update(delays(rng))
            (sk, sname) = sk if isinstance(sk, tuple) else (sk, sk + uniq)
            (tk, tname) = tk if isinstance(tk, tuple) else (tk, tk + uniq)
            src = f'{s}/{sname}/{LIB[sk]["out"]}'
            if s.split('/')[-1] in readout_of and rng.random() < 0.5:
                src = f"{s}/{readout_of[s.split('/')[-1]]}/q"          # the readout operator's variable as edge source
            tgt = f'{t}/{tname}/{LIB[tk]["in"]}'
            rt_ = readout_of.get(t.split('/')[-1])
            if rt_ and spec['ops'][rt_]['lib'] == 'rd2' and rng.random() < 0.5:
                tgt = f"{t}/{rt_}/z_in"                                     # the readout's own edge input
            out.append([src, tgt, a])
        return out
    if per_node_ops:
        used = {o for nt in spec['nts'].values() for o in nt['ops']}
        spec['ops'] = {k_: v_ for k_, v_ in spec['ops'].items() if k_ in used}
    if hier and n >= 2:
        cut = rng.randint(1, n - 1)
        groups = {'ca': names[:cut], 'cb': names[cut:]}
        spec['circuits'] = {}
        for cn, members in groups.items():
            spec['circuits'][cn] = {'name': cn + uniq, 'nodes': {m: nodes[m] for m in members},
                                    'edges': mk_edges(members, None, rng.randint(0, 2))}
        allp = [f'{cn}/{m}' for cn, ms in groups.items() for m in ms]
        spec['edges'] = [e for e in mk_edges(allp, None, rng.randint(0, 3))
                         if e[0].split('/')[0] != e[1].split('/')[0]]
    else:
        spec['nodes'] = nodes
        spec['edges'] = mk_edges(names, None, rng.randint(0, max_edges))
    return spec


# ----------------------------------------------------------------------------------------------------------
# builders
# ----------------------------------------------------------------------------------------------------------
def _as_definition(decl):
    """the same declaration written as a full definition dict (vtype/value/dtype/shape), the other form the Python
    frontend accepts"""
    if isinstance(decl, dict):
        return decl
    if isinstance(decl, float):
        return {'vtype': 'constant', 'value': decl, 'dtype': 'float', 'shape': (1,)}
    kind, val = decl.split('(')
    val = float(val[:-1])
    vtype = {'output': 'output', 'variable': 'state_var', 'input': 'input'}[kind]
    return {'vtype': vtype, 'value': val, 'dtype': 'float', 'shape': (1,)}


def _vardecl(lib, defaults, op=None):
    L = LIB[lib]
    out = {}
    for s in L['state']:
        val = defaults[s]
        if isinstance(val, (list, tuple)):
            val = f'{val[0]!r}{val[1]:+}j'          # complex literal without parentheses
        out[s] = f"output({val})" if (s == L['out'] or L.get('all_out')) else f"variable({val})"
        if op and op.get('decl') == 'bare':
            out[s] = out[s].split('(')[0]        # declaration without parentheses ('x: output'): value 0 unless overridden
    for c in L['const']:
        if L.get('array') and c == 'wmid':
            import numpy as np
            w = np.zeros(1500)
            w[700] = defaults[c]
            out['w'] = {'vtype': 'constant', 'value': w, 'shape': w.shape, 'dtype': 'float'}
            continue
        out[c] = float(defaults[c])
    if L.get('complex'):
        out['ic'] = 0.0 + 1.0j
    if lib in ('rd', 'rd2'):
        out[op['reads']] = 'input(0.0)'
    if L['in']:
        out[L['in']] = 'input(0.0)'
    return out


def build_python(spec, pool=None):
    """pool: optional dict shared between several build calls; template objects are created once per key, so two
    circuits built with the same pool share the same OperatorTemplate / NodeTemplate Python objects"""
    from pyrates import CircuitTemplate, NodeTemplate, OperatorTemplate
    sync_twins(spec)
    pool = pool if pool is not None else {}
    ops = {}
    for k, o in spec['ops'].items():
        if o.get('derived_from'):
            # an operator DERIVED (update_template) from the pooled base operator object of another model
            b = o['derived_from']
            if ('op', b['key']) not in pool:
                bo = {'lib': o['lib'], 'name': b['name'], 'defaults': b['defaults'], 'reads': o.get('reads')}
                pool[('op', b['key'])] = OperatorTemplate(name=b['name'], equations=op_eqs(bo),
                                                          variables=_vardecl(o['lib'], {**LIB[o['lib']]['defaults'], **b['defaults']}, bo))
            # (derived afresh at every build: the base may have been compiled in the meantime)
            ops[k] = pool[('op', b['key'])].update_template(name=o['name'],
                                                            variables={v_: float(x_) for v_, x_ in o['derive_var'].items()})
            continue
        if ('op', k) not in pool:
            decl = _vardecl(o['lib'], {**LIB[o['lib']]['defaults'], **o.get('defaults', {})}, o)
            if o.get('decl') == 'dict':
                decl = {v: _as_definition(d) for v, d in decl.items()}
            pool[('op', k)] = OperatorTemplate(name=o['name'], equations=op_eqs(o), variables=decl)
        ops[k] = pool[('op', k)]
    nts = {}
    for k, nt in spec['nts'].items():
        if ('nt', k) not in pool or any(spec['ops'][ok].get('derived_from') for ok in nt['ops']):
            if nt.get('var'):
                pool[('nt', k)] = NodeTemplate(name=nt['name'],
                                               operators={ops[ok]: {v_: cval(x_) for v_, x_ in nt['var'].get(ok, {}).items()}
                                                          for ok in nt['ops']})
            else:
                pool[('nt', k)] = NodeTemplate(name=nt['name'], operators=[ops[ok] for ok in nt['ops']])
        nts[k] = pool[('nt', k)]

    ets = {}
    for k, et in (spec.get('ets') or {}).items():
        if ('et', k) not in pool:
            from pyrates import EdgeTemplate
            vars_ = {'s_e': 'input(0.0)', 'm': 'output(0.0)', 'kk': float(et.get('kk', 0.5))}
            if ELIB[et['lib']]['wired']:
                vars_['s_t'] = 'input(0.0)'
            eop = OperatorTemplate(name=et['opname'], equations=list(ELIB[et['lib']]['eqs']), variables=vars_)
            pool[('et', k)] = EdgeTemplate(name=et['name'], operators=[eop])
        ets[k] = pool[('et', k)]

    def edge(e):
        a = {k: v for k, v in e[2].items() if v is not None and k in ('weight', 'delay', 'spread')}
        if e[2].get('f32'):
            # delay and spread handed over in single precision (numpy float32 scalars, e.g. elements of a float32 array)
            import numpy as np
            a = {k: (np.float32(v) if k in ('delay', 'spread') else v) for k, v in a.items()}
        if e[2].get('et'):
            et = spec['ets'][e[2]['et']]
            pre = f"{et['name']}/{et['opname']}"
            if ELIB[et['lib']]['wired']:
                a[f'{pre}/s_e'] = 'source'
                a[f'{pre}/s_t'] = e[2]['wire']
            if e[2].get('kk') is not None:
                a[f"{et['opname']}/kk"] = e[2]['kk']       # numeric edge-operator values are keyed 'op/var'
            return (e[0], e[1], ets[e[2]['et']], a)
        return (e[0], e[1], None, a)

    def circ(s):
        if s.get('circuits'):
            # (twin sub-circuits: one CircuitTemplate object per instance, equal in name and content - what a Python loop
            # produces; in a YAML file they are ONE template referenced twice, and from_yaml hands out one object)
            return CircuitTemplate(name=s['name'], circuits={k: circ(v) for k, v in s['circuits'].items()},
                                   edges=[edge(e) for e in s.get('edges', [])])
        return CircuitTemplate(name=s['name'], nodes={n: nts[k] for n, k in s['nodes'].items()},
                               edges=[edge(e) for e in s.get('edges', [])])
    return circ(spec)


def yaml_text(spec):
    sync_twins(spec)
    lines = ['%YAML 1.2', '---', '']
    for k, o in spec['ops'].items():
        lines += [f"{o['name']}:", '  base: OperatorTemplate', '  equations:']
        lines += [f'    - "{e}"' for e in op_eqs(o)]
        lines += ['  variables:']
        for v, d in _vardecl(o['lib'], {**LIB[o['lib']]['defaults'], **o.get('defaults', {})}, o).items():
            lines.append(f'    {v}: {d!r}' if not isinstance(d, str) else f'    {v}: {d}')
        lines.append('')
    for k, nt in spec['nts'].items():
        lines += [f"{nt['name']}:", '  base: NodeTemplate', '  operators:']
        if nt.get('var'):
            for ok in nt['ops']:
                lines.append(f"    {spec['ops'][ok]['name']}:")
                vv = nt['var'].get(ok, {})
                if not vv:
                    lines[-1] += ' {}'
                for v, d in vv.items():
                    if isinstance(d, (list, tuple)):
                        lines.append(f'      {v}: {d[0]!r}{d[1]:+}j')      # complex value, as text
                    else:
                        lines.append(f'      {v}: {float(d)!r}')
        else:
            lines += [f"    - {spec['ops'][ok]['name']}" for ok in nt['ops']]
        lines.append('')

    for k, et in (spec.get('ets') or {}).items():
        lines += [f"{et['opname']}:", '  base: OperatorTemplate', '  equations:']
        lines += [f'    - "{e}"' for e in ELIB[et['lib']]['eqs']]
        lines += ['  variables:', '    s_e: input(0.0)', '    m: output(0.0)', f"    kk: {float(et.get('kk', 0.5))!r}"]
        if ELIB[et['lib']]['wired']:
            lines.append('    s_t: input(0.0)')
        lines += ['', f"{et['name']}:", '  base: EdgeTemplate', '  operators:', f"    - {et['opname']}", '']

    def edge(e):
        parts = [f'{k}: {float(v)!r}' for k, v in e[2].items() if v is not None and k in ('weight', 'delay', 'spread')]
        tmpl = 'null'
        if e[2].get('et'):
            et = spec['ets'][e[2]['et']]
            tmpl = et['name']
            pre = f"{et['name']}/{et['opname']}"
            if ELIB[et['lib']]['wired']:
                parts += [f'{pre}/s_e: source', f"{pre}/s_t: {e[2]['wire']}"]
            if e[2].get('kk') is not None:
                parts.append(f"{et['opname']}/kk: {float(e[2]['kk'])!r}")
        return f"    - [{e[0]}, {e[1]}, {tmpl}, {{{', '.join(parts)}}}]"

    emitted = set()

    def circ(s, top):
        subs = s.get('circuits') or {}
        for sub in subs.values():
            circ(sub, False)
        if spec.get('twin_sub') and s['name'] in emitted:
            return          # the same sub-circuit template used under several keys is written once
        emitted.add(s['name'])
        lines.append(f"{s['name']}:")
        lines.append('  base: CircuitTemplate')
        if subs:
            lines.append('  circuits:')
            lines.extend(f"    {k}: {v['name']}" for k, v in subs.items())
        else:
            lines.append('  nodes:')
            lines.extend(f"    {n}: {spec['nts'][k]['name']}" for n, k in s['nodes'].items())
        if s.get('edges'):
            lines.append('  edges:')
            lines.extend(edge(e) for e in s['edges'])
        lines.append('')
    circ(spec, True)
    return '\n'.join(lines)


def build_yaml(spec, fname=None):
    from pyrates import CircuitTemplate
    fname = fname or f"model_{spec['name']}"
    with open(fname + '.yaml', 'w') as f:
        f.write(yaml_text(spec))
    return CircuitTemplate.from_yaml(f"{fname}/{spec['name']}")


def build(spec, pool=None, fname=None):
    return build_yaml(spec, fname) if spec.get('build') == 'yaml' else build_python(spec, pool)


def state_outputs(spec):
    """outputs dict requesting every state variable by explicit path: {label: path}"""
    net = RefNet(spec)
    return {f'o{i}': n for i, n in enumerate(net.state_names)}


def add_edge_templates(rng, spec, p=0.5, uniq='', delayed=False):
    """turn a seeded share of the undelayed edges into template edges (gain / explicitly wired coupling, with optional
    per-edge override of the edge operator's constant)"""
    spec['ets'] = {f'et{j}{uniq}': {'name': f'et{j}{uniq}', 'opname': f'eop{j}{uniq}', 'lib': lib, 'kk': rng.randint(2, 24) / 16}
                   for j, lib in enumerate(['egain', 'ecoup', 'eaff'])}

    def levels(s_):
        yield s_
        for sub in (s_.get('circuits') or {}).values():
            yield from levels(sub)
    used = set()
    # edges that use the same template are grouped by the compiler and must carry the same attribute keys: a template is
    # used either with a per-edge value of its constant on every edge or on none
    with_kk = {k: rng.random() < 0.4 for k in spec['ets']}
    for lv in levels(spec):
        for e in lv.get('edges', []):
            if ((e[2].get('delay') or e[2].get('spread')) and not delayed) or rng.random() > p:
                continue
            k = rng.choice(sorted(spec['ets']))
            e[2]['et'] = k
            used.add(k)
            if ELIB[spec['ets'][k]['lib']]['wired']:
                e[2]['wire'] = e[1].rsplit('/', 1)[0] + '/' + _state_of_target(spec, lv, e[1])
            if with_kk[k]:
                e[2]['kk'] = rng.randint(2, 24) / 16
    spec['ets'] = {k: v for k, v in spec['ets'].items() if k in used}
    if not spec['ets']:
        del spec['ets']
    return spec


def gen_big(rng, kind=None, delays=None, uniq='', n=None):
    """10-16 nodes of ONE operator kind (a vectorized group beyond the matrix_sparseness threshold) wired as a ring, a
    shuffled chain, a hub fan-out or a converging pattern (every node fed by its two predecessors); distinct weights"""
    lib = rng.choice(['lin', 'leak', 'integ'])
    n = n or rng.randint(10, 16)
    spec = gen_net(rng, n_nodes=n, libs=(lib,), max_edges=0, uniq=uniq, build='python')
    names = list(spec['nodes'])
    opn = next(iter(spec['ops'].values()))['name']
    out, inn = LIB[lib]['out'], LIB[lib]['in']
    kind = kind or rng.choice(['ring', 'chain', 'fan', 'converge'])
    pairs = []
    if kind == 'ring':
        pairs = [(names[i], names[(i + 1) % n]) for i in range(n)]
    elif kind == 'chain':
        order = names[:]
        rng.shuffle(order)
        pairs = list(zip(order[:-1], order[1:]))
        rng.shuffle(pairs)
    elif kind == 'fan':
        pairs = [(names[0], t) for t in names[1:]]
    else:
        pairs = [(names[i - 1], names[i]) for i in range(n)] + [(names[i - 2], names[i]) for i in range(n)]
    w = list(range(-40, 41))
    w.remove(0)
    rng.shuffle(w)
    for s_, t_ in pairs:
        a = {'weight': w.pop() / 16}
        if delays:
            a.update(delays(rng))
        spec['edges'].append([f'{s_}/{opn}/{out}', f'{t_}/{opn}/{inn}', a])
    spec['big_kind'] = kind
    return spec


def sync_twins(spec):
    """twin sub-circuits are ONE template: after a minimiser dropped something from one copy, the first copy is what counts"""
    if spec.get('twin_sub') and spec.get('circuits'):
        keys = list(spec['circuits'])
        for k in keys[1:]:
            spec['circuits'][k] = copy.deepcopy(spec['circuits'][keys[0]])
    return spec


def make_twin_subcircuits(rng, spec):
    """hierarchical spec -> both sub-circuit keys carry the SAME sub-circuit template (one object / one YAML template used
    twice); the top level connects equal nodes of the two instances"""
    keys = list(spec['circuits'])
    first = spec['circuits'][keys[0]]
    for k in keys[1:]:
        spec['circuits'][k] = copy.deepcopy(first)
    spec['twin_sub'] = True
    spec['edges'] = []
    net_nodes = list(first['nodes'])
    for n in rng.sample(net_nodes, min(len(net_nodes), rng.randint(1, 2))):
        o = spec['ops'][spec['nts'][first['nodes'][n]]['ops'][0]]
        spec['edges'].append([f"{keys[0]}/{n}/{o['name']}/{LIB[o['lib']]['out']}", f"{keys[-1]}/{n}/{o['name']}/{LIB[o['lib']]['in']}",
                              {'weight': _grid(rng, -2.0, 2.0, 32) or 0.75}])
    return spec


def _state_of_target(spec, level, tgt):
    """name of a state variable of the target operator (the wired second input of a coupling edge reads it)"""
    opname = tgt.split('/')[-2]
    for o in spec['ops'].values():
        if o['name'] == opname:
            return LIB[o['lib']]['out']
    raise KeyError(opname)


def gen_twinops(rng, build='python'):
    """node templates made of two operators that are structurally identical (same equations and declarations) and differ
    only in name and values; two such node templates whose operators carry DIFFERENT names.  Every node/operator has its
    own values."""
    k = rng.choice(['lin', 'leak', 'sat'])
    spec = {'name': 'c', 'build': build, 'ops': {}, 'nts': {}, 'edges': []}
    pool = [v / 32 for v in range(-40, 41) if v]
    rng.shuffle(pool)
    for sfx in 'abcd':
        d = dict(LIB[k]['defaults'])
        for c in LIB[k]['const']:
            d[c] = _grid(rng, 0.25, 3.0, 16)
        for c in LIB[k]['state']:
            d[c] = pool.pop()
        spec['ops'][f'{k}_{sfx}'] = {'lib': k, 'name': f'{k}_{sfx}', 'defaults': d}
    for key, pair in (('ntE', 'ab'), ('ntI', 'cd')):
        var = {}
        for sfx in pair:
            if rng.random() < 0.6:
                var[f'{k}_{sfx}'] = {c: _grid(rng, 0.25, 3.0, 16) for c in rng.sample(LIB[k]['const'], rng.randint(1, len(LIB[k]['const'])))}
        spec['nts'][key] = {'name': key, 'ops': [f'{k}_{s_}' for s_ in pair], 'var': var}
    names = node_names(rng, rng.randint(2, 4))
    assign = {nm: ('ntE', 'ntI')[i % 2] if i < 2 else rng.choice(['ntE', 'ntI']) for i, nm in enumerate(names)}
    if rng.random() < 0.5:
        assign = dict(reversed(list(assign.items())))
    spec['nodes'] = assign
    seen = set()
    for _ in range(rng.randint(0, 3)):
        s_, t_ = rng.choice(names), rng.choice(names)
        so, to = rng.choice(spec['nts'][assign[s_]]['ops']), rng.choice(spec['nts'][assign[t_]]['ops'])
        if (s_, so, t_, to) in seen:
            continue
        seen.add((s_, so, t_, to))
        spec['edges'].append([f'{s_}/{so}/{LIB[k]["out"]}', f'{t_}/{to}/{LIB[k]["in"]}', {'weight': _grid(rng, -2.0, 2.0, 32) or 0.75}])
    return spec


def gen_aliased(rng, uniq='', hier=None, build='python', libs=('lin', 'leak', 'sat'), readouts=0.0):
    """circuit with aliasing: one OperatorTemplate used by several NodeTemplates (with and without per-node overrides),
    one NodeTemplate object under several node keys (and in several sub-circuits)."""
    kinds = [rng.choice(libs) for _ in range(rng.randint(1, 2))]
    spec = {'name': 'c' + uniq, 'build': build, 'ops': {}, 'nts': {}, 'edges': []}
    for k in sorted(set(kinds)):
        spec['ops'][k + uniq] = {'lib': k, 'name': k + uniq, 'defaults': dict(LIB[k]['defaults'])}
        if rng.random() < 0.4:
            spec['ops'][k + uniq]['decl'] = 'dict'
    ntk = []
    for i in range(rng.randint(1, 3)):
        k = rng.choice(sorted(set(kinds)))
        var = {}
        if rng.random() < 0.6:
            for c in rng.sample(LIB[k]['const'] + LIB[k]['state'], rng.randint(1, len(LIB[k]['const']) + 1)):
                var[c] = _grid(rng, 0.25, 3.0, 16)
        key = f'nt{i}{uniq}'
        spec['nts'][key] = {'name': key, 'ops': [k + uniq], 'var': ({k + uniq: var} if var else {})}
        if readouts and rng.random() < readouts:
            # multi-operator node template: a readout operator (shared between node templates of the same first-operator
            # kind) behind the first one, with overrides of its own or none (an empty entry next to a non-empty one)
            rk = f'rd_{k}{uniq}'
            spec['ops'].setdefault(rk, {'lib': 'rd', 'name': rk, 'reads': LIB[k]['out'], 'defaults': dict(LIB['rd']['defaults'])})
            spec['nts'][key]['ops'].append(rk)
            if rng.random() < 0.6:
                spec['nts'][key]['var'][rk] = {c: _grid(rng, 0.25, 3.0, 16) for c in rng.sample(['kq', 'gq', 'q'], rng.randint(1, 3))}
        ntk.append(key)
    n = rng.randint(2, 5)
    names = node_names(rng, n)
    assign = {nm: rng.choice(ntk) for nm in names}
    kind_of = {nm: spec['ops'][spec['nts'][assign[nm]]['ops'][0]]['lib'] for nm in names}

    def mk_edges(paths, m, cross=None):
        out, seen = [], set()
        for _ in range(m):
            s, t = rng.choice(paths), rng.choice(paths)
            if (s, t) in seen or (cross and s.split('/')[0] == t.split('/')[0]):
                continue
            seen.add((s, t))
            sk, tk = kind_of[s.split('/')[-1]], kind_of[t.split('/')[-1]]
            out.append([f'{s}/{sk}{uniq}/{LIB[sk]["out"]}', f'{t}/{tk}{uniq}/{LIB[tk]["in"]}',
                        {'weight': (_grid(rng, -2.0, 2.0, 32) or 0.75) if rng.random() > 0.07 else 0.0}])
        return out
    if hier is None:
        hier = rng.random() < 0.4
    if hier and n >= 2:
        cut = rng.randint(1, n - 1)
        groups = {'ca': names[:cut], 'cb': names[cut:]}
        spec['circuits'] = {cn: {'name': cn + uniq, 'nodes': {m: assign[m] for m in ms},
                                 'edges': mk_edges(ms, rng.randint(0, 2))} for cn, ms in groups.items()}
        allp = [f'{cn}/{m}' for cn, ms in groups.items() for m in ms]
        spec['edges'] = mk_edges(allp, rng.randint(0, 3), cross=True)
    else:
        spec['nodes'] = assign
        spec['edges'] = mk_edges(names, rng.randint(0, 4))
    return spec
