"""Structural fingerprint of templates: equations, variable definitions, variations, nodes, sub-circuits and edges,
deep-frozen into plain tuples.  Only attributes a user can read are used."""
import numpy as np


def freeze(x):
    if isinstance(x, dict):
        return tuple(sorted(((str(k), freeze(v)) for k, v in x.items())))
    if isinstance(x, (list, tuple)):
        return tuple(freeze(i) for i in x)
    if isinstance(x, np.ndarray):
        return ('nd', x.shape, tuple(np.asarray(x).reshape(-1).tolist()))
    if isinstance(x, np.generic):
        return x.item()
    if isinstance(x, (int, float, str, bool, type(None), complex)):
        return x
    if type(x).__name__ in ('OperatorTemplate',):
        return fp_op(x)
    if type(x).__name__ in ('NodeTemplate', 'EdgeTemplate'):
        return fp_node(x)
    return repr(x)


def fp_op(op):
    return ('Op', op.name, tuple(op.equations), freeze(op.variables))


def fp_node(n):
    return (type(n).__name__, n.name, tuple((fp_op(o), freeze(v)) for o, v in n.operators.items()))


def fp_edge(e):
    e = tuple(e)
    tmpl = e[2] if len(e) > 2 else None
    return (e[0], e[1], fp_node(tmpl) if tmpl is not None else None) + tuple(freeze(x) for x in e[3:])


def fp_circuit(c):
    return ('Circuit', c.name,
            tuple((k, fp_node(v)) for k, v in c.nodes.items()),
            tuple((k, fp_circuit(v)) for k, v in c.circuits.items()),
            tuple(fp_edge(e) for e in c.edges))


def first_diff(a, b, path=''):
    if type(a) != type(b):
        return f'{path}: {str(a)[:120]} vs {str(b)[:120]}'
    if isinstance(a, tuple):
        if len(a) != len(b):
            return f'{path}: length {len(a)} vs {len(b)}: {str(a)[:160]} vs {str(b)[:160]}'
        for i, (x, y) in enumerate(zip(a, b)):
            d = first_diff(x, y, f'{path}[{i}]')
            if d:
                return d
        return None
    return None if a == b else f'{path}: {a!r} vs {b!r}'
