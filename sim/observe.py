"""Canonical observations of compiled models and run results, and their comparison.
Everything is keyed by frontend name, never by argument position."""
import numpy as np


def _tolist(a):
    a = np.asarray(a)
    if a.dtype.kind == 'c':
        return [[float(x.real), float(x.imag)] for x in a.reshape(-1)]
    return a.astype(float).reshape(-1).tolist() if a.dtype.kind in 'fiub' else [str(x) for x in a.reshape(-1)]


def probe_states(y0, n=2):
    y0 = np.asarray(y0)
    out = []
    for k in range(n):
        out.append((y0 * (0.5 + 0.25 * k) + 0.1 * (k + 1) * np.cos(np.arange(y0.size) + k).reshape(y0.shape)
                    ).astype(y0.dtype))
    return out


def _copy_args(args):
    out = []
    for a in args:
        out.append(np.array(a, copy=True) if isinstance(a, np.ndarray) else a)
    return out


def call_fresh(f, args, names, y, t=0):
    """evaluate f at (t, y) with a fresh copy of every argument (ring buffers / dy are mutated by the call)"""
    a = _copy_args(args[2:])
    r = f(t, np.array(y, copy=True), *a)
    return r


def observe_func(f, args, names, smap, jac=False):
    names = list(names)
    skip = {'t', 'y', 'dy', 'hist'}
    argd = {}
    for n, a in zip(names, args):
        if n in skip or callable(a):
            continue
        argd[n] = {'shape': list(np.shape(a)), 'v': _tolist(a)}
    y0 = np.asarray(args[1])
    obs = {'status': 'ok', 'names': sorted(n for n in names if n not in skip),
           'args': argd,
           'state': {k: (list(v) if isinstance(v, (tuple, list)) else int(v)) for k, v in smap.items()},
           'y0': _tolist(y0), 'dtype': str(y0.dtype), 'vf': []}
    for y in probe_states(y0):
        try:
            r = call_fresh(f, args, names, y)
            if isinstance(r, tuple):   # DDE jacobian: (J0, [J_tau...])
                obs['vf'].append([_tolist(r[0])] + [_tolist(x) for x in r[1]])
            elif hasattr(r, 'toarray'):
                obs['vf'].append(_tolist(r.toarray()))
            else:
                obs['vf'].append(_tolist(r))
        except Exception as e:
            obs['vf'].append({'raised': type(e).__name__})
    return obs


def observe_frame(R):
    cols = ['/'.join(str(x) for x in c) if isinstance(c, tuple) else str(c) for c in R.columns]
    return {'status': 'ok', 'columns': cols, 'index': _tolist(R.index.values),
            'values': [_tolist(R.values[:, j]) for j in range(R.shape[1])], 'dtype': str(R.values.dtype)}


def raised(e):
    return {'status': 'raised', 'exc': type(e).__name__, 'msg': str(e)[:200]}


def diff(a, b, rtol=1e-9, atol=1e-12, path=''):
    """first difference between two observations, or None.  Floats within tolerance, everything else exact.
    The 'msg' of a raised observation is informational only."""
    if isinstance(a, dict) and isinstance(b, dict):
        if set(a) != set(b):
            return f'{path}: keys {sorted(set(a) ^ set(b))} differ'
        for k in sorted(a):
            if k == 'msg':
                continue
            d = diff(a[k], b[k], rtol, atol, f'{path}/{k}')
            if d:
                return d
        return None
    if isinstance(a, (list, tuple)) and isinstance(b, (list, tuple)):
        if len(a) != len(b):
            return f'{path}: length {len(a)} vs {len(b)}'
        for i, (x, y) in enumerate(zip(a, b)):
            d = diff(x, y, rtol, atol, f'{path}[{i}]')
            if d:
                return d
        return None
    if isinstance(a, float) or isinstance(b, float):
        try:
            fa, fb = float(a), float(b)
        except (TypeError, ValueError):
            return f'{path}: {a!r} vs {b!r}'
        if fa != fa and fb != fb:
            return None
        if abs(fa - fb) > atol + rtol * max(abs(fa), abs(fb)):
            return f'{path}: {fa!r} vs {fb!r}'
        return None
    if a != b:
        return f'{path}: {a!r} vs {b!r}'
    return None
