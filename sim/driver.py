"""Seeded search driver shared by all checks.

One integer (VERIF_SEED) decides everything: run i of a check uses seed_i = H(VERIF_SEED, pid, tier, i),
the trace is a pure function of (seed_i, stratum, tier), execution is a pure function of the trace and
the code under test.  The PRNG is never consulted while a trace executes.
"""
import os, sys, json, time, hashlib, random, copy, collections

from .pool import ForkPool

VERIF = os.path.dirname(os.path.dirname(os.path.abspath(__file__)))
EVIDENCE_DIR = os.path.join(VERIF, 'evidence')
REPLAY_DIR = os.path.join(VERIF, 'replays')
KNOWN_FILE = os.path.join(VERIF, 'known_findings.json')


def H(*parts) -> int:
    s = ':'.join(str(p) for p in parts).encode()
    return int.from_bytes(hashlib.sha256(s).digest()[:6], 'big')


def digest(obj) -> str:
    return hashlib.sha256(json.dumps(obj, sort_keys=True, default=str).encode()).hexdigest()[:16]


class KF:
    """Known-finding matcher: `predicate(trace, violation)` pins the specific trigger, `ablate(trace)`
    returns the trace with the trigger removed (or None if it cannot be removed).  A violation is
    attributed to the finding only if the predicate holds AND the same signature does not occur when the
    ablated trace is executed (causal check).  Optional `model(trace, violation)` returns True when the
    observed wrong value equals what the finding's defect model predicts (stronger attribution)."""
    def __init__(self, kid, predicate, ablate=None, what='', explain=None):
        # explain(trace) -> trace whose reference EMULATES the finding's defect; the violation is attributed only if the
        # emulating reference agrees with the observed behaviour (no violation of that law any more)
        self.kid, self.predicate, self.ablate, self.what, self.explain = kid, predicate, ablate, what, explain


class Check:
    pid = 'C00'
    timeout = 60.0
    quick_runs = 200
    thorough_budget_s = 900
    thorough_max_runs = 10 ** 9
    shrink_budget = 300
    rule = ''
    components_real = []
    components_stubbed = []
    assumptions = []

    def strata(self, tier):
        """list of (stratum, weight)"""
        return [('S-main', 1)]

    def generate(self, rng, stratum, tier):
        raise NotImplementedError

    def execute(self, trace):
        """runs in a pristine forked child with a fresh cwd; returns the result dict"""
        raise NotImplementedError

    def shrink(self, trace):
        return iter(())

    def known(self):
        return []

    def prepare_parent(self):
        pass


def sig(v):
    return (v.get('law'), v.get('cls'), v.get('key'))


def _exec_entry(packed):
    check, trace = packed
    t0 = time.perf_counter()
    funcs = None
    if os.environ.get('VERIF_FUNCCOV'):
        # reach measure (off by default): which functions of the pyrates package this run entered (history process only;
        # pristine observers / references are separate processes)
        import sys as _sys
        funcs = set()

        def prof(frame, event, arg):
            if event == 'call':
                fn = frame.f_code.co_filename
                i = fn.find('/pyrates/')
                if i >= 0:
                    funcs.add(f'{fn[i + 9:]}:{frame.f_code.co_name}:{frame.f_code.co_firstlineno}')
        _sys.setprofile(prof)
    try:
        res = check.execute(trace)
    finally:
        if funcs is not None:
            _sys.setprofile(None)
    res.setdefault('violations', [])
    res['wall'] = time.perf_counter() - t0
    if funcs is not None:
        res['funcs'] = sorted(funcs)
    return res


def stratum_sequence(strata):
    seq = []
    frac = [w for _, w in strata if 0 < w < 1]
    scale = int(round(1 / min(frac))) if frac else 1      # a rare stratum (weight < 1) gets one slot of a longer cycle
    for name, w in strata:
        seq += [name] * max(1, int(round(w * scale)))
    return seq


def make_trace(check, vseed, tier, i, forced_stratum=None):
    seq = stratum_sequence(check.strata(tier))
    stratum = forced_stratum or getattr(check, 'force_stratum', None) or seq[i % len(seq)]
    seed = H(vseed, check.pid, tier, i)
    rng = random.Random(seed)
    trace = check.generate(rng, stratum, tier)
    trace['property'] = check.pid
    trace['stratum'] = stratum
    trace['seed'] = seed
    trace['run_index'] = i
    return trace


def load_known(pid):
    try:
        with open(KNOWN_FILE) as f:
            data = json.load(f)
    except FileNotFoundError:
        return {}
    return {e['id']: e for e in data if e.get('property') == pid and 'fixed' not in e}


class Runner:
    def __init__(self, check, tier='quick', vseed=0, jobs=None, verbose=True):
        self.check = check
        self.tier = tier
        self.vseed = int(vseed)
        self.jobs = jobs or os.cpu_count() or 4
        self.pool = ForkPool(jobs=self.jobs, timeout=check.timeout)
        self.verbose = verbose
        self.listed = load_known(check.pid)
        self.matchers = {k.kid: k for k in check.known() if k.kid in self.listed}

    # ------------------------------------------------------------------ single executions
    def exec_trace(self, trace):
        status, payload = self.pool.run_one(_exec_entry, (self.check, trace))
        return status, payload

    def exec_many(self, traces):
        return self.pool.map(_exec_entry, [(self.check, t) for t in traces])

    # ------------------------------------------------------------------ known-finding attribution
    def _kf_runs(self, trace, res):
        """(kid, kind, trace') for every ablation / explanation execution that attributing `res` may need"""
        out = []
        for kid, m in self.matchers.items():
            if not any(self._pred(m, trace, v) for v in res['violations']):
                continue
            if m.ablate is not None:
                out.append((kid, 'ab', m.ablate(copy.deepcopy(trace))))
            if m.explain is not None:
                out.append((kid, 'ex', m.explain(copy.deepcopy(trace))))
        return out

    def attribute(self, trace, res, pre=None):
        """split res['violations'] into (known: list of (kid, v), new: list of v).
        pre: optional {(kid, kind): (status, result)} of ablation ('ab') / explanation ('ex') runs executed beforehand
        (the search executes them in parallel); missing ones are executed here."""
        known, new = [], []
        cache = {}

        def outcome(kid, kind, make):
            if (kid, kind) not in cache:
                if pre is not None and (kid, kind) in pre:
                    st, r = pre[(kid, kind)]
                else:
                    t = make()
                    st, r = self.exec_trace(t) if t is not None else ('none', None)
                if st != 'ok':
                    cache[(kid, kind)] = None
                elif kind == 'ab':
                    cache[(kid, kind)] = {sig(x) for x in r['violations']}
                else:
                    cache[(kid, kind)] = {x.get('law') for x in r['violations']}
            return cache[(kid, kind)]
        for v in res['violations']:
            hit = None
            for kid, m in self.matchers.items():
                if not self._pred(m, trace, v):
                    continue
                if m.ablate is None:
                    hit = kid
                    break
                sigs = outcome(kid, 'ab', lambda: m.ablate(copy.deepcopy(trace)))
                if sigs is None or sig(v) in sigs:
                    continue          # the violation survives the removal of the trigger: not this finding
                if m.explain is not None:
                    laws = outcome(kid, 'ex', lambda: m.explain(copy.deepcopy(trace)))
                    if laws is None or v.get('law') in laws:
                        continue      # the defect model does not explain what was observed: not this finding
                hit = kid
                break
            if hit:
                known.append((hit, v))
            else:
                new.append(v)
        return known, new

    @staticmethod
    def _pred(m, trace, v):
        try:
            return bool(m.predicate(trace, v))
        except Exception:
            return False

    # ------------------------------------------------------------------ minimisation
    def minimise(self, trace, target_sig):
        budget = self.check.shrink_budget
        used = 0
        cur = trace
        improved = True
        while improved and used < budget:
            improved = False
            cands = []
            for c in self.check.shrink(cur):
                cands.append(c)
                if len(cands) >= 4 * self.jobs:
                    break
            if not cands:
                break
            for k in range(0, len(cands), self.jobs):
                chunk = cands[k:k + self.jobs]
                used += len(chunk)
                results = self.exec_many(chunk)
                pick = None
                for c, (st, r) in zip(chunk, results):
                    if st != 'ok':
                        continue
                    _, new = self.attribute(c, r) if self.matchers else ([], r['violations'])
                    if any(sig(v) == target_sig for v in new):
                        pick = c
                        break
                if pick is not None:
                    cur = pick
                    improved = True
                    break
                if used >= budget:
                    break
        return cur, used

    # ------------------------------------------------------------------ the search
    def search(self):
        check, tier = self.check, self.tier
        t_start = time.time()
        budget_s = float(os.environ.get('VERIF_BUDGET_S', check.thorough_budget_s))
        n_quick = int(os.environ.get('VERIF_RUNS', check.quick_runs))

        def tasks():
            i = 0
            while True:
                if self.stop:
                    return
                if tier == 'quick' and i >= n_quick:
                    return
                if tier == 'thorough' and (time.time() - t_start > budget_s or i >= check.thorough_max_runs):
                    return
                tr = make_trace(check, self.vseed, tier, i)
                self.traces[i] = tr
                yield i, (check, tr)
                i += 1

        self.stop = False
        self.traces = {}
        agg = Aggregate(check, tier, self.vseed)
        first_new = None
        harness = []
        pending_attr = []
        for tid, status, payload in self.pool.imap(_exec_entry, tasks()):
            tr = self.traces.pop(tid)
            if status != 'ok':
                harness.append((tid, status, str(payload)[-1500:]))
                if len(harness) > 5:
                    self.stop = True
                continue
            agg.add(tr, payload)
            if payload['violations']:
                pending_attr.append((tid, tr, payload))
                # stop feeding new runs as soon as some violation cannot possibly be a listed finding
                for v in payload['violations']:
                    if not any(self._pred(m, tr, v) for m in self.matchers.values()):
                        self.stop = True
        # attribution happens after the sweep (needs the pool for ablation runs), in run-index order
        pending_attr.sort(key=lambda x: x[0])
        known_seen = collections.OrderedDict()
        # ablation / explanation executions for all violating runs, in parallel
        jobs = []
        for n_, (tid, tr, payload) in enumerate(pending_attr):
            for kid, kind, t in self._kf_runs(tr, payload):
                if t is not None:
                    jobs.append((n_, kid, kind, t))
        pre_all = collections.defaultdict(dict)
        if jobs:
            for (n_, kid, kind, t), out in zip(jobs, self.exec_many([j[3] for j in jobs])):
                pre_all[n_][(kid, kind)] = out
        for n_, (tid, tr, payload) in enumerate(pending_attr):
            known, new = self.attribute(tr, payload, pre=pre_all.get(n_, {}))
            for kid, v in known:
                known_seen.setdefault(kid, [0, v, tr['seed']])[0] += 1
            if new and first_new is None:
                first_new = (tr, new[0], payload)
            agg.violating_runs += 1 if new else 0
        rc = 0
        for kid, (n, v, seed) in known_seen.items():
            print(f"KNOWN-FINDING: property={check.pid} {kid}: {self.listed[kid].get('what', '')} "
                  f"[{n} runs, e.g. seed {seed}: {v.get('law')} {str(v.get('detail'))[:160]}]")
        agg.known_seen = {k: n for k, (n, _, _) in known_seen.items()}
        if first_new is not None:
            tr, v, payload = first_new
            target = sig(v)
            small, used = self.minimise(tr, target)
            st, r = self.exec_trace(small)
            vv = [x for x in (r['violations'] if st == 'ok' else []) if sig(x) == target]
            path = write_replay(check.pid, small, vv[0] if vv else v, tr, used)
            print(f"violation: law={v.get('law')} class={v.get('cls')} key={v.get('key')} seed={tr['seed']} "
                  f"stratum={tr['stratum']}\n  detail: {str((vv[0] if vv else v).get('detail'))[:1200]}")
            print(f"VIOLATION property={check.pid} replay={path}")
            rc = 1
        if harness:
            for tid, status, tail in harness[:5]:
                print(f"HARNESS-ERROR run={tid} status={status}\n{tail}")
            if rc == 0:
                rc = 2
        agg.wall = time.time() - t_start
        agg.harness_errors = len(harness)
        if rc != 2:
            rc2 = agg.self_check()
            if rc2 and rc == 0:
                rc = rc2
        agg.write(violations=1 if rc == 1 else 0)
        self.pool.cleanup()
        if self.verbose:
            print(f"[{check.pid}] tier={tier} VERIF_SEED={self.vseed} runs={agg.n} discarded={agg.discarded} "
                  f"nontrivial-distinct={len(agg.nontrivial)} wall={agg.wall:.1f}s "
                  f"faults_fired={dict(agg.faults)} exit={rc}")
        return rc

    # ------------------------------------------------------------------ replay
    def replay(self, path):
        with open(path) as f:
            rep = json.load(f)
        trace = rep['trace']
        want = tuple(rep['signature']) if rep.get('signature') else None
        st, r = self.exec_trace(trace)
        if st != 'ok':
            self.pool.cleanup()
            print(f"HARNESS-ERROR replay status={st}\n{r}")
            return 2
        # a replayed violation that the known-findings matchers attribute to a listed finding is that finding, not a new one
        known, new = self.attribute(trace, r) if self.matchers else ([], r['violations'])
        self.pool.cleanup()
        for v in r['violations']:
            print(f"  observed: law={v.get('law')} class={v.get('cls')} key={v.get('key')} detail={str(v.get('detail'))[:600]}")
        for kid, v in known:
            print(f"KNOWN-FINDING: property={self.check.pid} {kid}: the replayed history is an instance of this listed finding")
        hit = [v for v in new if want is None or sig(v) == want]
        if hit:
            print(f"VIOLATION property={self.check.pid} replay={path}")
            return 1
        print(f"replay of {path}: violation not reproduced on this tree (exit 0)")
        return 0


def write_replay(pid, trace, v, orig_trace, shrink_runs):
    os.makedirs(REPLAY_DIR, exist_ok=True)
    path = os.path.join(REPLAY_DIR, f"{pid}-{orig_trace['seed']}.json")
    with open(path, 'w') as f:
        json.dump({'property': pid, 'signature': list(sig(v)), 'violation': v, 'seed': orig_trace['seed'],
                   'stratum': orig_trace.get('stratum'), 'shrink_runs': shrink_runs,
                   'original_size': trace_size(orig_trace), 'minimised_size': trace_size(trace),
                   'trace': trace}, f, indent=1, default=str)
    return path


def trace_size(t):
    return len(json.dumps(t, default=str))


class Aggregate:
    def __init__(self, check, tier, vseed):
        self.check, self.tier, self.vseed = check, tier, vseed
        self.n = 0
        self.discarded = 0
        self.discard_reasons = collections.Counter()
        self.nontrivial = set()
        self.decisions = set()
        self.faults = collections.Counter()
        self.faults_cfg = collections.Counter()
        self.probes = collections.Counter()
        self.maxima = {}
        self.stats = collections.Counter()
        self.strata = collections.Counter()
        self.states = set()
        self.schedules = set()
        self.bigrams = set()
        self.samples = []
        self.sim_time = 0.0
        self.child_wall = 0.0
        self.violating_runs = 0
        self.known_seen = {}
        self.harness_errors = 0
        self.wall = 0.0
        self.seed_lo = None
        self.seed_hi = None
        self.funcs = set()

    def add(self, trace, res):
        self.n += 1
        self.strata[trace['stratum']] += 1
        if res.get('discard'):
            self.discarded += 1
            self.discard_reasons[str(res['discard'])[:80]] += 1
        d = res.get('digest') or digest(trace)
        self.decisions.add(d)
        if res.get('nontrivial') and not res.get('discard'):
            self.nontrivial.add(d)
        for k, v in (res.get('faults') or {}).items():
            self.faults[k] += v
        for k, v in (res.get('faults_cfg') or {}).items():
            self.faults_cfg[k] += v
        for k, v in (res.get('probes') or {}).items():
            self.probes[k] += v
        for k, v in (res.get('stats') or {}).items():
            self.stats[k] += v
        for s in res.get('states') or []:
            self.states.add(s)
        if res.get('schedule'):
            self.schedules.add(res['schedule'])
        for b in res.get('bigrams') or []:
            self.bigrams.add(tuple(b))
        for k, v in (res.get('maxima') or {}).items():
            self.maxima[k] = max(self.maxima.get(k, float('-inf')), v)
        self.funcs.update(res.get('funcs') or [])
        self.sim_time += float(res.get('sim_time') or 0.0)
        self.child_wall += float(res.get('wall') or 0.0)
        if len(self.samples) < 3 and not res.get('discard'):
            self.samples.append(compact(trace))

    def self_check(self):
        """thorough tier: a probe stuck at 0 means the workload stopped reaching a branch"""
        maxd = getattr(self.check, 'max_discard', 0.6)
        if self.n >= 50 and self.discarded > maxd * self.n:
            print(f"HARNESS-ERROR property={self.check.pid} {self.discarded}/{self.n} runs discarded "
                  f"({dict(self.discard_reasons.most_common(3))}): the workload no longer reaches the property")
            return 2
        need = getattr(self.check, 'required_probes', {}).get(self.tier, [])
        missing = [p for p in need if self.probes.get(p, 0) == 0 and self.faults.get(p, 0) == 0]
        if missing and self.n >= getattr(self.check, 'probe_min_runs', 200):
            print(f"HARNESS-ERROR property={self.check.pid} probes never hit: {missing}")
            return 2
        return 0

    def write(self, violations=0):
        os.makedirs(EVIDENCE_DIR, exist_ok=True)
        c = self.check
        wall = max(self.wall, 1e-9)
        samples = self.samples or [{'note': 'no non-discarded run'}]
        ev = {
            'property_id': c.pid, 'tier': self.tier, 'seed': self.vseed, 'level': 'exploration',
            'coverage': {
                'evaluations': self.n,
                'distinct_nontrivial': len(self.nontrivial),
                'rule': c.rule,
                'samples': samples,
                'discarded_runs': self.discarded,
                'discard_reasons': dict(self.discard_reasons.most_common(8)),
                'distinct_decision_digests': len(self.decisions),
                'runs_per_hour': round(self.n / wall * 3600),
                'simulated_time_model_units': round(self.sim_time, 6),
                'counters': dict(self.stats),
                'faults_fired': dict(self.faults),
                'faults_configured': dict(self.faults_cfg),
                'probes': dict(self.probes),
                'maxima': self.maxima,
                'strata': dict(self.strata),
                'distinct_global_states': len(self.states),
                'distinct_schedules': len(self.schedules),
                'op_bigrams_covered': len(self.bigrams),
                'known_findings_seen': self.known_seen,
                'harness_errors': self.harness_errors,
                'components_real': c.components_real,
                'components_stubbed': c.components_stubbed,
                'seed_derivation': 'seed_i = sha256(VERIF_SEED:property:tier:i)[:6]; i = 0..evaluations-1',
                'jobs': os.cpu_count(),
            },
            'assumptions': list(c.assumptions),
            'wall_s': round(self.wall, 3),
            'violations': violations,
        }
        if self.funcs:
            ev['coverage']['pyrates_functions_entered'] = len(self.funcs)
            with open(os.path.join(EVIDENCE_DIR, f'funccov-{c.pid}.json'), 'w') as f:
                json.dump(sorted(self.funcs), f, indent=0)
        with open(os.path.join(EVIDENCE_DIR, f'{c.pid}.json'), 'w') as f:
            json.dump(ev, f, indent=1, default=str)


def compact(trace, limit=6000):
    s = json.dumps(trace, default=str)
    if len(s) <= limit:
        return trace
    return {'truncated_json': s[:limit] + '...'}
