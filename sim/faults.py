"""Fault injectors.  All of them act through seams the shipped code already has (module attributes, sys.settrace);
each counts when it FIRES, not when it is configured."""
import sys, os, errno, builtins

from .spies import Interrupt


class InterruptAt:
    """raise Interrupt (a BaseException) at the n-th `call` event whose code lives under a pyrates/ source directory"""

    def __init__(self, n, genmodule=False):
        self.n = n
        self.genmodule = genmodule     # fire when the body of a GENERATED module (a file below the cwd) starts executing
        self.count = 0
        self.fired = 0
        self.where = None
        self._cwd = None

    def _tracer(self, frame, event, arg):
        if event == 'call':
            fn = frame.f_code.co_filename
            if self.genmodule:
                if frame.f_code.co_name == '<module>' and '/pyrates/' not in fn and 'site-packages' not in fn \
                        and '/lib/python' not in fn and not fn.startswith('<'):
                    self.fired = 1
                    self.where = f'{os.path.basename(fn)}:<module>'
                    sys.settrace(None)
                    raise Interrupt(f'injected interrupt at the start of generated module {os.path.basename(fn)}')
                return None
            if '/pyrates/' in fn:
                self.count += 1
                if self.count == self.n:
                    self.fired = 1
                    self.where = f'{os.path.basename(fn)}:{frame.f_code.co_name}'
                    sys.settrace(None)
                    raise Interrupt(f'injected interrupt at call #{self.n} ({self.where})')
        return None

    def __enter__(self):
        sys.settrace(self._tracer)
        return self

    def __exit__(self, *exc):
        sys.settrace(None)
        return False


class _OsProxy:
    def __init__(self, fault):
        self._f = fault

    def __getattr__(self, name):
        if name == 'remove' and self._f.target == 'remove':
            return self._f._remove
        return getattr(os, name)


class SourceIOFault:
    """OSError on the k-th matching file-system call of pyrates.backend.base.base_backend:
    target 'src_write' -> open(path, 'w'); 'remove' -> os.remove; 'rmtree' -> rmtree.
    short=True (src_write only): the file is created, half of the text is written, then the error is raised on close."""

    def __init__(self, target='src_write', nth=1, err='ENOSPC', short=False):
        self.target, self.nth, self.err, self.short = target, nth, err, short
        self.calls = 0
        self.fired = 0

    def _raise(self, path):
        self.fired += 1
        code = getattr(errno, self.err)
        raise OSError(code, os.strerror(code), str(path))

    def _open(self, path, mode='r', *a, **k):
        if self.target == 'src_write' and 'w' in mode:
            self.calls += 1
            if self.calls == self.nth:
                if self.short:
                    with builtins.open(path, mode, *a, **k) as f:
                        f.write('def vector_field(t, y')   # torn file left behind
                self._raise(path)
        return builtins.open(path, mode, *a, **k)

    def _remove(self, path, *a, **k):
        self.calls += 1
        if self.calls == self.nth:
            self._raise(path)
        return os.remove(path, *a, **k)

    def _rmtree(self, path, *a, **k):
        from shutil import rmtree
        self.calls += 1
        if self.calls == self.nth:
            self._raise(path)
        return rmtree(path, *a, **k)

    def __enter__(self):
        import pyrates.backend.base.base_backend as bb
        self._bb = bb
        self._saved = {k: bb.__dict__.get(k, None) for k in ('open', 'os', 'rmtree')}
        if self.target == 'src_write':
            bb.open = self._open
        elif self.target == 'remove':
            bb.os = _OsProxy(self)
        elif self.target == 'rmtree':
            bb.rmtree = self._rmtree
        return self

    def __exit__(self, *exc):
        bb = self._bb
        for k, v in self._saved.items():
            if v is None:
                bb.__dict__.pop(k, None)
            else:
                bb.__dict__[k] = v
        return False


class YamlIOFault:
    """OSError (optionally after a short write) when ruamel/pyrates opens a file for writing through pathlib.Path.open
    or builtins.open inside pyrates.frontend.fileio.yaml"""

    def __init__(self, nth=1, err='ENOSPC', short=False):
        self.nth, self.err, self.short = nth, err, short
        self.calls = 0
        self.fired = 0

    def __enter__(self):
        import pathlib
        self._orig = pathlib.Path.open
        fault = self

        def bad(self_, mode='r', *a, **k):
            if 'w' in mode or 'a' in mode:
                fault.calls += 1
                if fault.calls == fault.nth:
                    fault.fired += 1
                    if fault.short:
                        with fault._orig(self_, mode, *a, **k) as f:
                            f.write('%YAML 1.2\n---\nbroken:\n  base: Operat')
                    code = getattr(errno, fault.err)
                    raise OSError(code, os.strerror(code), str(self_))
            return fault._orig(self_, mode, *a, **k)
        pathlib.Path.open = bad
        return self

    def __exit__(self, *exc):
        import pathlib
        pathlib.Path.open = self._orig
        return False


class YamlReadFault:
    """OSError on the k-th time pyrates.frontend.fileio.yaml opens a template file for READING (a module-attribute seam:
    the module's `open` global shadows the builtin)"""

    def __init__(self, nth=1, err='EIO'):
        self.nth, self.err = nth, err
        self.calls = 0
        self.fired = 0

    def _open(self, path, mode='r', *a, **k):
        if 'r' in mode and 'w' not in mode:
            self.calls += 1
            if self.calls == self.nth:
                self.fired += 1
                code = getattr(errno, self.err)
                raise OSError(code, os.strerror(code), str(path))
        return builtins.open(path, mode, *a, **k)

    def __enter__(self):
        import pyrates.frontend.fileio.yaml as ym
        self._ym = ym
        self._had = 'open' in ym.__dict__
        self._saved = ym.__dict__.get('open')
        ym.open = self._open
        return self

    def __exit__(self, *exc):
        if self._had:
            self._ym.open = self._saved
        else:
            self._ym.__dict__.pop('open', None)
        return False
