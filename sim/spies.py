"""Spies at the seams PyRates already offers.  They call through to the real object and only append to a log;
they never draw from a PRNG or read a clock."""
import numpy as np


class RHSFault(RuntimeError):
    """injected failure of the generated right-hand side at a chosen evaluation"""


class Interrupt(BaseException):
    """stand-in for Ctrl-C in a notebook: PyRates has `except Exception: pass` blocks that swallow milder ones"""


class Recorder:
    """decorator= seam: records (t, y copy, return copy) of every evaluation of the generated function"""

    def __init__(self, fault_at=None, n_skip_args=0, nan_from=None):
        self.events = []
        self.fault_at = fault_at
        self.nan_from = nan_from      # from this evaluation on the RHS returns NaN: an adaptive solver terminates early
        self.nan_fired = 0
        self.fired = 0
        self.calls = 0
        self.t_dtypes = set()    # precisions in which the time argument arrived ('python float', 'torch.float64', ...)

    def lossy_time(self):
        """names of time-argument types that cannot carry a float64 time stamp (for float64 models)"""
        return sorted(d for d in self.t_dtypes if d not in ('float', 'int') and not d.endswith('float64')
                      and not d.endswith('int64') and not d.endswith('int32'))

    def __call__(self, f, **kw):
        def spy(t, y, *a):
            k = self.calls
            self.calls += 1
            self.t_dtypes.add(str(getattr(t, 'dtype', type(t).__name__)))
            yc = np.array(y, copy=True)
            if self.fault_at is not None and k == self.fault_at:
                self.fired += 1
                raise RHSFault(f'injected RHS fault at evaluation {k}')
            r = f(t, y, *a)
            if r is None and a:
                # in-place convention of the fortran backend: the routine fills the dy buffer (first extra argument)
                self.events.append((t, yc, np.array(a[0], copy=True)))
                return r
            if self.nan_from is not None and k >= self.nan_from:
                self.nan_fired += 1
                return np.full_like(np.asarray(r), np.nan)
            self.events.append((t, yc, np.array(r, copy=True)))
            return r
        spy.__wrapped__ = f
        return spy
