"""Candidate generators for greedy trace minimisation (ddmin-style chunk removal + local simplifiers).
The driver executes candidates in order and keeps the first that preserves the violation signature."""
import copy


def drop_chunks(lst, min_len=0):
    """yield copies of lst with one contiguous chunk removed: halves, quarters, ..., single items"""
    n = len(lst)
    if n <= min_len:
        return
    size = max(n // 2, 1)
    seen = set()
    while size >= 1:
        for start in range(0, n, size):
            cand = lst[:start] + lst[start + size:]
            key = (start, min(start + size, n))
            if len(cand) >= min_len and key not in seen and len(cand) < n:
                seen.add(key)
                yield cand
        if size == 1:
            break
        size //= 2


def with_key(trace, path, value):
    t = copy.deepcopy(trace)
    d = t
    for k in path[:-1]:
        d = d[k]
    d[path[-1]] = value
    return t


def list_field_candidates(trace, path, min_len=0):
    d = trace
    for k in path:
        d = d[k]
    for cand in drop_chunks(list(d), min_len=min_len):
        yield with_key(trace, path, cand)
