"""Fork pool: every task runs in a pristine child forked from a parent that has imported
pyrates (and nothing else), with its own scratch working directory on /dev/shm.

No multiprocessing.Pool: the parent owns the PIDs, enforces a wall-clock limit per child with
SIGKILL, and a dead child is a HARNESS error, never a pass.  Results come back pickled over a pipe.
Task order of *completion* is nondeterministic, task *results* are not: callers index by task id.
"""
import os, sys, pickle, select, shutil, signal, time, faulthandler, traceback, errno

SCRATCH_ROOT = os.environ.get('VERIF_SCRATCH', '/dev/shm')


class HarnessError(Exception):
    pass


def _scratch_base():
    d = os.path.join(SCRATCH_ROOT, f'pyrates-verif-{os.getpid()}')
    os.makedirs(d, exist_ok=True)
    return d


def _child(fn, arg, wfd, workdir, timeout):
    # runs in the child: never returns
    code = 0
    try:
        os.makedirs(workdir, exist_ok=True)
        os.chdir(workdir)
        # silence pyrates' prints; keep stderr in a file for post-mortems
        devnull = os.open(os.devnull, os.O_WRONLY)
        os.dup2(devnull, 1)
        errfd = os.open(os.path.join(workdir, '_stderr.log'), os.O_WRONLY | os.O_CREAT | os.O_TRUNC)
        os.dup2(errfd, 2)
        faulthandler.enable(file=sys.stderr)
        faulthandler.dump_traceback_later(max(timeout - 2, 1), exit=False, file=sys.stderr)
        try:
            out = ('ok', fn(arg))
        except BaseException as e:  # the task itself failed: harness-level problem
            out = ('exc', ''.join(traceback.format_exception(type(e), e, e.__traceback__))[-4000:])
        data = pickle.dumps(out, protocol=4)
        view = memoryview(data)
        while view:
            n = os.write(wfd, view[:1 << 16])
            view = view[n:]
    except BaseException:
        code = 3
    finally:
        os._exit(code)


class ForkPool:
    """run(fn, tasks) -> dict task_id -> (status, payload); status in ok|exc|timeout|crash."""

    def __init__(self, jobs=16, timeout=60.0, keep_dirs=False):
        self.jobs = max(1, int(jobs))
        self.timeout = timeout
        self.base = _scratch_base()
        self.keep = keep_dirs
        self._n = 0

    def cleanup(self):
        shutil.rmtree(self.base, ignore_errors=True)

    def imap(self, fn, tasks, timeout=None):
        """tasks: iterable of (task_id, arg).  Yields (task_id, status, payload) as children finish.
        The iterable is consumed lazily, so a caller can stop feeding after a violation."""
        timeout = timeout or self.timeout
        it = iter(tasks)
        live = {}  # rfd -> [pid, task_id, chunks, t0, workdir]
        exhausted = False
        while True:
            while not exhausted and len(live) < self.jobs:
                try:
                    tid, arg = next(it)
                except StopIteration:
                    exhausted = True
                    break
                self._n += 1
                workdir = os.path.join(self.base, f'w{self._n}')
                r, w = os.pipe()
                sys.stdout.flush(); sys.stderr.flush()
                pid = os.fork()
                if pid == 0:
                    os.close(r)
                    for fd in list(live):
                        try: os.close(fd)
                        except OSError: pass
                    _child(fn, arg, w, workdir, timeout)
                os.close(w)
                live[r] = [pid, tid, [], time.monotonic(), workdir]
            if not live:
                if exhausted:
                    return
                continue
            ready, _, _ = select.select(list(live), [], [], 0.25)
            now = time.monotonic()
            for fd in ready:
                try:
                    b = os.read(fd, 1 << 20)
                except OSError as e:
                    if e.errno == errno.EINTR:
                        continue
                    b = b''
                if b:
                    live[fd][2].append(b)
                    continue
                pid, tid, chunks, t0, workdir = live.pop(fd)
                os.close(fd)
                _, st = os.waitpid(pid, 0)
                data = b''.join(chunks)
                if data:
                    try:
                        status, payload = pickle.loads(data)
                    except Exception as e:
                        status, payload = 'crash', f'unpicklable result ({e}); exit status {st}'
                else:
                    status, payload = 'crash', f'no result; wait status {st}; ' + self._stderr_tail(workdir)
                if not self.keep:
                    shutil.rmtree(workdir, ignore_errors=True)
                yield tid, status, payload
            for fd in list(live):
                pid, tid, chunks, t0, workdir = live[fd]
                if now - t0 > timeout:
                    try: os.kill(pid, signal.SIGKILL)
                    except ProcessLookupError: pass
                    os.waitpid(pid, 0)
                    os.close(fd)
                    live.pop(fd)
                    tail = self._stderr_tail(workdir)
                    if not self.keep:
                        shutil.rmtree(workdir, ignore_errors=True)
                    yield tid, 'timeout', f'killed after {timeout}s; ' + tail

    @staticmethod
    def _stderr_tail(workdir):
        try:
            with open(os.path.join(workdir, '_stderr.log'), 'r', errors='replace') as f:
                return f.read()[-2000:]
        except OSError:
            return ''

    def run_one(self, fn, arg, timeout=None):
        for _, status, payload in self.imap(fn, [(0, arg)], timeout=timeout):
            return status, payload
        raise HarnessError('no result')

    def map(self, fn, args, timeout=None):
        """ordered results for a finite list of args"""
        out = [None] * len(args)
        for tid, status, payload in self.imap(fn, list(enumerate(args)), timeout=timeout):
            out[tid] = (status, payload)
        return out


def fork_call(fn, arg, workdir, timeout=60.0):
    """Run fn(arg) in a forked copy of the *current* process (used by a still-pristine child to obtain a reference
    observation from another pristine process).  Returns (status, payload) like ForkPool."""
    r, w = os.pipe()
    sys.stdout.flush(); sys.stderr.flush()
    pid = os.fork()
    if pid == 0:
        os.close(r)
        try:
            os.makedirs(workdir, exist_ok=True)
            os.chdir(workdir)
            try:
                out = ('ok', fn(arg))
            except BaseException as e:
                out = ('exc', ''.join(traceback.format_exception(type(e), e, e.__traceback__))[-4000:])
            data = pickle.dumps(out, protocol=4)
            view = memoryview(data)
            while view:
                n = os.write(w, view[:1 << 16])
                view = view[n:]
        finally:
            os._exit(0)
    os.close(w)
    chunks = []
    t0 = time.monotonic()
    status = None
    while True:
        ready, _, _ = select.select([r], [], [], 0.25)
        if ready:
            b = os.read(r, 1 << 20)
            if not b:
                break
            chunks.append(b)
        elif time.monotonic() - t0 > timeout:
            try: os.kill(pid, signal.SIGKILL)
            except ProcessLookupError: pass
            status = 'timeout'
            break
    os.close(r)
    os.waitpid(pid, 0)
    shutil.rmtree(workdir, ignore_errors=True)
    if status:
        return status, f'killed after {timeout}s'
    data = b''.join(chunks)
    if not data:
        return 'crash', 'no result from reference process'
    return pickle.loads(data)
