"""World: executes API-level ops (one public PyRates call each) for one or several user workflows inside the current
process and returns one canonical observation per op.  Used by the history checks (C13, C14, C07, C15).

The op list is the schedule: ops run strictly in list order; every op carries the id of the workflow it belongs to.
"""
import os, sys, copy, hashlib, json
import numpy as np

from . import models, observe
from .spies import Recorder, RHSFault, Interrupt
from .faults import InterruptAt, SourceIOFault, YamlIOFault, YamlReadFault


def _steep_tanh(x):
    return np.tanh(4. * x)


def _kw(kw, op=None):
    kw = dict(kw)
    kw.setdefault('verbose', False)
    if op is not None and op.get('custom_ops'):
        # a user-defined entry of the backend's function table, handed to THIS compilation only (keyword `ops`)
        mod = 'torch' if kw.get('backend') == 'torch' else ('jax.numpy' if kw.get('backend') == 'jax' else 'numpy')
        kw['ops'] = {'tanh': {'call': 'steep_tanh', 'func': _steep_tanh,
                              'def': "\ndef steep_tanh(x):\n    return tanh(4.*x)\n", 'imports': [f'{mod}.tanh']}}
    return kw


class World:
    def __init__(self):
        self.objs = {}       # name -> CircuitTemplate
        self.handles = {}    # name -> (f, args, names, smap, first_vf_obs, is_jac)
        self.pools = {}
        self.paths = {}      # name -> YAML template path the object was loaded from (path-cached by PyRates)
        self.fired = {}
        self.probes = {}
        self.states = []

    def bump(self, d, k, n=1):
        d[k] = d.get(k, 0) + n

    # ------------------------------------------------------------------------------------------ global state
    def fingerprint(self):
        import pyrates.ir.node as N, pyrates.ir.circuit as C
        from pyrates.frontend.template.operator import OperatorTemplate
        from pyrates.frontend.template import template_cache
        from pyrates.frontend.template.circuit import input_labels
        from pyrates.backend.base.base_backend import _compiled_module_cache
        files = sorted(f for f in os.listdir('.') if not f.startswith('_'))
        fp = (tuple(sorted(map(repr, OperatorTemplate.cache))), len(N.node_cache),
              tuple(sorted(map(repr, N.node_labels.items()))),
              tuple(sorted(repr((k, str(v))) for k, v in C.in_edge_indices.items())),
              tuple(sorted(map(repr, input_labels.items()))),
              tuple(sorted(map(repr, template_cache))), len(_compiled_module_cache), tuple(files),
              tuple(sorted(m for m in sys.modules if m.startswith('pyrates_') or m.startswith('wf'))))
        return hashlib.sha256(repr(fp).encode()).hexdigest()[:12]

    def residue_probes(self):
        import pyrates.ir.node as N, pyrates.ir.circuit as C
        from pyrates.frontend.template.operator import OperatorTemplate
        if C.in_edge_indices:
            self.bump(self.probes, 'in_edge_counter_nonzero_at_op_start')
        if N.node_cache:
            self.bump(self.probes, 'node_cache_nonempty_at_op_start')
        if OperatorTemplate.cache:
            self.bump(self.probes, 'operator_cache_nonempty_at_op_start')

    # ------------------------------------------------------------------------------------------ dispatch
    def do(self, op):
        kind = op['op']
        if kind in ('compile', 'run', 'construct'):
            self.residue_probes()
        try:
            obs = getattr(self, 'op_' + kind)(op)
        except Interrupt as e:
            obs = {'status': 'interrupted', 'exc': 'Interrupt'}
        except Exception as e:
            obs = observe.raised(e)
        self.states.append(self.fingerprint())
        return obs

    # ------------------------------------------------------------------------------------------ ops
    def op_construct(self, op):
        spec = op['spec']
        pool = self.pools.setdefault(op['pool'], {}) if op.get('pool') else None
        c = self._with_fault(op.get('fault'), lambda: models.build(spec, pool=pool, fname=op.get('fname')))
        self.objs[op['obj']] = c
        if spec.get('build') == 'yaml':
            self.paths[op['obj']] = f"{op.get('fname') or 'model_' + spec['name']}/{spec['name']}"
        else:
            self.paths.pop(op['obj'], None)
        return {'status': 'ok'}

    def op_update_var(self, op):
        c = self.objs[op['obj']]
        nv = {k: (np.asarray(v) if isinstance(v, list) else v) for k, v in (op.get('node_vars') or {}).items()}
        ev = [(s, t, dict(a)) for s, t, a in (op.get('edge_vars') or [])]
        c.update_var(node_vars=nv, edge_vars=ev)
        return {'status': 'ok'}

    def _fault_ctx(self, fault):
        if not fault:
            return None
        if fault['kind'] == 'intr':
            return InterruptAt(fault['at_call'], genmodule=bool(fault.get('genmodule')))
        if fault['kind'] == 'io':
            return SourceIOFault(fault.get('target', 'src_write'), fault.get('nth', 1), fault.get('errno', 'ENOSPC'),
                                 fault.get('short', False))
        if fault['kind'] == 'yaml_read':
            return YamlReadFault(fault.get('nth', 1), fault.get('errno', 'EIO'))
        if fault['kind'] == 'yaml_io':
            return YamlIOFault(fault.get('nth', 1), fault.get('errno', 'ENOSPC'), fault.get('short', False))
        return None

    def _with_fault(self, fault, fn):
        ctx = self._fault_ctx(fault)
        if ctx is None:
            return fn()
        try:
            with ctx:
                return fn()
        finally:
            if ctx.fired:
                self.bump(self.fired, fault['kind'] if fault['kind'] != 'io' else 'io_' + fault.get('target', 'src_write'))

    def op_compile(self, op):
        c = self.objs[op['obj']]
        kw = _kw(op['kw'], op)
        api = op.get('api', 'get_run_func')
        step = kw.pop('step_size', 1e-3)
        if op.get('input'):
            kw['inputs'] = {op['input']['target']: _input_array(op['input'])}
        if op.get('decorator'):
            kw['decorator'] = _DECORATORS[op['decorator']]
        if '/' in str(kw.get('file_name', '')):
            os.makedirs(os.path.dirname(kw['file_name']), exist_ok=True)     # PyRates expects the directory to exist
        fn = getattr(c, api)
        name = op.get('func_name', 'vf')
        res = self._with_fault(op.get('fault'), lambda: fn(name, step, **kw))
        f, args, names, smap = res
        obs = observe.observe_func(f, args, names, smap, jac=(api == 'get_jacobian_func'))
        if op.get('handle'):
            self.handles[op['handle']] = (f, args, names, smap, obs['vf'])
        return obs

    def op_probe(self, op):
        f, args, names, smap, first = self.handles[op['handle']]
        y0 = np.asarray(args[1])
        vf = []
        for y in observe.probe_states(y0):
            try:
                r = observe.call_fresh(f, args, names, y)
                if isinstance(r, tuple):
                    vf.append([observe._tolist(r[0])] + [observe._tolist(x) for x in r[1]])
                elif hasattr(r, 'toarray'):
                    vf.append(observe._tolist(r.toarray()))
                else:
                    vf.append(observe._tolist(r))
            except Exception as e:
                vf.append({'raised': type(e).__name__})
        return {'status': 'ok', 'vf': vf, 'keep': observe.diff(vf, first) is None}

    def op_run(self, op):
        c = self.objs[op['obj']]
        kw = _kw(op['kw'], op)
        T, dt = kw.pop('T'), kw.pop('dt')
        outputs = kw.pop('outputs')
        if op.get('input'):
            kw['inputs'] = {op['input']['target']: _input_array(op['input'])}
        if '/' in str(kw.get('file_name', '')):
            os.makedirs(os.path.dirname(kw['file_name']), exist_ok=True)
        rec = None
        fault = op.get('fault')
        if fault and fault['kind'] == 'rhs':
            rec = Recorder(fault_at=fault['at_eval'])
            kw['decorator'] = rec
            fault = None
        call = lambda: c.run(T, dt, outputs=outputs, **kw)
        if op.get('via') == 'integrate' and op['obj'] in self.paths:
            # the convenience entry point: template path in, results out (it loads through the path cache and, with
            # clear=True, wipes the frontend caches afterwards)
            from pyrates import integrate
            self.bump(self.probes, 'via_integrate')
            call = lambda: integrate(self.paths[op['obj']], simulation_time=T, step_size=dt, outputs=outputs, **kw)
        try:
            R = self._with_fault(fault, call)
        except RHSFault:
            self.bump(self.fired, 'rhs')
            return {'status': 'raised', 'exc': 'RHSFault'}
        return observe.observe_frame(R)

    def op_grid(self, op):
        """pyrates.grid_search over one parameter of a (copy of a) circuit: a state-polluting op whose own result must not
        depend on the process history either"""
        from pyrates import grid_search
        c = self.objs[op['obj']]
        kw = _kw(op.get('kw', {}))
        res, pmap = grid_search(c, {'k0': list(op['vals'])},
                                {'k0': {'vars': [f"{op['opn']}/{op['var']}"], 'nodes': [op['node']]}},
                                step_size=op['dt'], simulation_time=op['T'], outputs={'o': op['out']}, **kw)
        obs = observe.observe_frame(res)
        obs['pmap'] = {str(i): [float(x) for x in row] for i, row in zip(pmap.index, pmap.values)}
        return obs

    def op_clear(self, op):
        from pyrates import clear
        clear(self.objs[op['obj']])
        return {'status': 'ok'}

    def op_wipe(self, op):
        from pyrates import clear_frontend_caches
        clear_frontend_caches()
        return {'status': 'ok'}

    def op_getter(self, op):
        c = self.objs[op['obj']]
        out = self._with_fault(op.get('fault'), lambda: getattr(c, op['which'])(*op.get('args', [])))
        return {'status': 'ok', 'repr': _freeze(out)}

    def op_getitem(self, op):
        c = self.objs[op['obj']]
        out = c[op['key']]
        return {'status': 'ok', 'type': type(out).__name__}

    def op_to_yaml(self, op):
        c = self.objs[op['obj']]
        self._with_fault(op.get('fault'), lambda: c.to_yaml(op['path']))
        return {'status': 'ok'}

    def op_from_yaml(self, op):
        from pyrates import CircuitTemplate
        self.objs[op['obj']] = CircuitTemplate.from_yaml(op['path'])
        return {'status': 'ok'}

    def op_deepcopy(self, op):
        self.objs[op['as']] = self._with_fault(op.get('fault'), lambda: copy.deepcopy(self.objs[op['obj']]))
        return {'status': 'ok'}

    def op_derive_operator(self, op):
        """derive a new operator template from one of the circuit's operators (what loading a YAML template with
        `base:` does); the derived object is dropped, the base must stay as it was"""
        c = self.objs[op['obj']]
        nt = c.get_node_template(op['node'])
        base = list(nt.operators)[0]
        kw = {'name': 'derived_op', 'equations': copy.deepcopy(op['edits'])}
        if op.get('variables'):
            kw['variables'] = {k_: (dict(v_, shape=tuple(v_['shape'])) if isinstance(v_, dict) else v_)
                               for k_, v_ in op['variables'].items()}
        d = base.update_template(**kw)
        return {'status': 'ok', 'n_eqs': len(d.equations)}

    def op_update_template(self, op):
        c = self.objs[op['obj']]
        kw = {}
        if op.get('edges') is not None:
            kw['edges'] = [(s, t, None, dict(a)) for s, t, a in op['edges']]
        if op.get('name'):
            kw['name'] = op['name']
        new = self._with_fault(op.get('fault'), lambda: c.update_template(in_place=False, **kw))
        if op.get('as'):
            self.objs[op['as']] = new
        return {'status': 'ok'}


def _dec_neg(f):
    def g(*a):
        return -np.asarray(f(*a))
    return g


def _dec_half(f):
    def g(*a):
        return 0.5 * np.asarray(f(*a))
    return g


def _dec_id(f):
    def g(*a):
        return f(*a)
    return g


_DECORATORS = {'neg': _dec_neg, 'half': _dec_half, 'id': _dec_id}


def _input_array(inp):
    k = np.arange(inp['n'])
    return inp['amp'] * (1.0 + (k % 5) / 4.0 + k / 64.0)


def _freeze(x):
    """deterministic text form of getter results (templates by class name and name)"""
    if isinstance(x, (list, tuple)):
        return [_freeze(i) for i in x]
    if isinstance(x, dict):
        return {str(k): _freeze(v) for k, v in sorted(x.items(), key=lambda kv: str(kv[0]))}
    if hasattr(x, 'name') and hasattr(x, '__class__') and 'Template' in type(x).__name__:
        return f'<{type(x).__name__} {x.name}>'
    if isinstance(x, (np.ndarray, np.generic)):
        return np.asarray(x).tolist()
    return x if isinstance(x, (int, float, str, bool, type(None))) else repr(x)
