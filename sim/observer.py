"""Pristine observer: a process forked BEFORE the history under test touches PyRates; after the history it receives
pickled template snapshots and, for each, forks a pristine grandchild that unpickles, compiles and returns the canonical
observation.  Observing therefore neither perturbs the process under test nor sees its cache residue."""
import os, sys, pickle, copy, struct

from .pool import fork_call


def _read_exact(fd, n):
    buf = b''
    while len(buf) < n:
        b = os.read(fd, n - len(buf))
        if not b:
            raise EOFError
        buf += b
    return buf


def _send(fd, obj):
    data = pickle.dumps(obj, protocol=4)
    os.write(fd, struct.pack('<Q', len(data)))
    view = memoryview(data)
    while view:
        n = os.write(fd, view[:1 << 16])
        view = view[n:]


def _recv(fd):
    n = struct.unpack('<Q', _read_exact(fd, 8))[0]
    return pickle.loads(_read_exact(fd, n))


def snapshot(template):
    """pickled shallow copy of a CircuitTemplate without compile products and run bookkeeping"""
    cp = copy.copy(template)
    cp._ir = None
    if hasattr(cp, '_state_var_values'):
        cp._state_var_values = {}
    if hasattr(cp, '_state_var_indices'):
        cp._state_var_indices = {}
    return pickle.dumps(cp, protocol=4)


def _observe_blob(arg):
    import warnings
    warnings.filterwarnings('ignore')
    blob, fn_name, kw = arg
    from . import observer_funcs
    c = pickle.loads(blob) if blob is not None else None
    return getattr(observer_funcs, fn_name)(c, **kw)


class Observer:
    def __init__(self, workdir):
        self.workdir = workdir
        self.req_r, self.req_w = os.pipe()
        self.res_r, self.res_w = os.pipe()
        sys.stdout.flush(); sys.stderr.flush()
        self.pid = os.fork()
        if self.pid == 0:
            os.close(self.req_w); os.close(self.res_r)
            try:
                jobs = _recv(self.req_r)
                out = []
                for i, job in enumerate(jobs):
                    st, payload = fork_call(_observe_blob, job, os.path.join(workdir, f'obs{i}'), timeout=60)
                    out.append((st, payload))
                _send(self.res_w, out)
            except EOFError:
                pass
            finally:
                os._exit(0)
        os.close(self.req_r); os.close(self.res_w)
        self.jobs = []

    def submit(self, blob, fn_name='obs_compile', **kw):
        self.jobs.append((blob, fn_name, kw))
        return len(self.jobs) - 1

    def collect(self):
        _send(self.req_w, self.jobs)
        os.close(self.req_w)
        out = _recv(self.res_r)
        os.close(self.res_r)
        os.waitpid(self.pid, 0)
        res = []
        for st, payload in out:
            if st != 'ok':
                raise RuntimeError(f'pristine observer failed: {st} {payload}')
            res.append(payload)
        return res

    def abort(self):
        try:
            os.close(self.req_w)
            os.close(self.res_r)
            os.waitpid(self.pid, 0)
        except OSError:
            pass
