"""what the pristine observer computes from an unpickled template"""
import numpy as np
from . import observe


def obs_compile(c, vectorize=False, precision='float64', step_size=1e-3):
    try:
        f, args, names, smap = c.get_run_func('vf', step_size, vectorize=vectorize, float_precision=precision,
                                              verbose=False, in_place=True, clear=False)
        return observe.observe_func(f, args, names, smap)
    except Exception as e:
        return observe.raised(e)


def obs_both(c, precision='float64'):
    """non-vectorized compile (every node/op/var has its own named argument and state slot) and a short labelled run
    with vectorization (public, labelled columns)"""
    import copy
    out = {'scalar': obs_compile(copy.deepcopy(c), vectorize=False, precision=precision)}
    try:
        names = sorted(out['scalar'].get('state', {}))
        R = c.run(5e-3, 1e-3, outputs={f'o{i}': n for i, n in enumerate(names)}, vectorize=True,
                  float_precision=precision, verbose=False, in_place=True, clear=False)
        fr = observe.observe_frame(R)
        fr['columns'] = [names[int(k[1:])] for k in fr['columns']]
        out['vec_run'] = fr
    except Exception as e:
        out['vec_run'] = observe.raised(e)
    return out


def obs_yaml(c, path=None, precision='float64', cwd=None):
    """restart semantics: a pristine process loads the stored file itself and observes the model"""
    from pyrates import CircuitTemplate
    if cwd:          # dotted template paths are resolved through Python's import system, relative to the working dir
        import os, sys
        os.chdir(cwd)
        sys.path.insert(0, cwd)
    try:
        t = CircuitTemplate.from_yaml(path)
    except Exception as e:
        r = observe.raised(e)
        return {'scalar': r, 'vec_run': r}
    return obs_both(t, precision)


def obs_spec(c, spec=None, precision='float64'):
    from . import models
    try:
        t = models.build(spec)
    except Exception as e:
        r = observe.raised(e)
        return {'scalar': r, 'vec_run': r}
    return obs_both(t, precision)


def obs_explicit(c, eqs=None, variables=None, opname='op', precision='float64'):
    from pyrates import CircuitTemplate, NodeTemplate, OperatorTemplate
    try:
        op = OperatorTemplate(name=opname, equations=list(eqs), variables=dict(variables))
        t = CircuitTemplate(name='der_c', nodes={'p': NodeTemplate(name='der_node', operators=[op])})
    except Exception as e:
        r = observe.raised(e)
        return {'scalar': r, 'vec_run': r}
    return obs_both(t, precision)


def obs_base_after_derive(c, base=None, derived=None, precision='float64'):
    """load the derived template first (same process), then observe the base it was derived from"""
    from pyrates import CircuitTemplate
    try:
        CircuitTemplate.from_yaml(derived)
    except Exception:
        pass
    return obs_yaml(None, base, precision)


def obs_op(c, op=None):
    """repeat one compile/run call of a history on a fresh template in this pristine process"""
    kw = dict(op['kw'])
    kw.setdefault('verbose', False)
    if op.get('input'):
        from .world import _input_array
        kw['inputs'] = {op['input']['target']: _input_array(op['input'])}
    try:
        if op['op'] == 'run':
            T, dt, outputs = kw.pop('T'), kw.pop('dt'), kw.pop('outputs')
            c.run(T, dt, outputs=outputs, **kw)
        else:
            getattr(c, op.get('api', 'get_run_func'))('vf', kw.pop('step_size', 1e-3), **kw)
        return {'status': 'ok'}
    except Exception as e:
        return observe.raised(e)


def obs_explicit_circuit(c, ops=None, nodes=None, edges=None, name='circ', precision='float64'):
    """a small circuit written out explicitly through the Python classes (expectation for derived / multi-file YAML)"""
    from pyrates import CircuitTemplate, NodeTemplate, OperatorTemplate
    try:
        ot = {k: OperatorTemplate(name=k, equations=list(v['eqs']), variables=dict(v['vars'])) for k, v in ops.items()}
        nt = {}
        for key, nd in nodes.items():
            nt[key] = NodeTemplate(name=nd['name'], operators={ot[o]: dict(var) for o, var in nd['operators']})
        t = CircuitTemplate(name=name, nodes=nt, edges=[(s, t_, None, dict(a)) for s, t_, a in (edges or [])])
    except Exception as e:
        r = observe.raised(e)
        return {'scalar': r, 'vec_run': r}
    return obs_both(t, precision)
