"""what the pristine observer computes from an unpickled template"""
import numpy as np
from . import observe


def obs_compile(c, vectorize=False, precision='float64', step_size=1e-3):
    try:
        f, args, names, smap = c.get_run_func('vf', step_size, vectorize=vectorize, float_precision=precision,
                                              verbose=False, in_place=True, clear=False)
        return observe.observe_func(f, args, names, smap)
    except Exception as e:
        return observe.raised(e)


def obs_both(c, precision='float64'):
    """non-vectorized compile (every node/op/var has its own named argument and state slot) and a short labelled run
    with vectorization (public, labelled columns)"""
    import copy
    out = {'scalar': obs_compile(copy.deepcopy(c), vectorize=False, precision=precision)}
    try:
        names = sorted(out['scalar'].get('state', {}))
        R = c.run(5e-3, 1e-3, outputs={f'o{i}': n for i, n in enumerate(names)}, vectorize=True,
                  float_precision=precision, verbose=False, in_place=True, clear=False)
        fr = observe.observe_frame(R)
        fr['columns'] = [names[int(k[1:])] for k in fr['columns']]
        out['vec_run'] = fr
    except Exception as e:
        out['vec_run'] = observe.raised(e)
    return out
